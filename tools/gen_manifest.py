#!/usr/bin/env python3
"""Regenerates /verif/MANIFEST.json from the table below (kept valid at all times)."""
import json, subprocess
ids=[json.loads(l)['id'] for l in open('/verif/properties.jsonl')]
SEQ_NOTE=("Trusted: the reference model (FIFO per topic, counters, flags), the small build-time geometry (2 KiB blocks, 4 blocks/file, "
 "8 KiB allocation cap) standing for the real constants, the executor that drives the public API inside worker processes "
 "(process-global block/file trackers are reset between executions by a cfg-guarded hook; Restart is a real fork only in isolated runs). "
 "Bounded: nothing is claimed beyond the depth, alphabet and configurations recorded in the evidence file.")
CHECKS={
 "C01": dict(engine="walmc-seq", category="model_checking", design="C01",
   technique="explicit-state BFS over API op sequences on the real engine, checked step-by-step against a FIFO reference model",
   text="Exhaustive breadth-first exploration of all sequences (bounded depth, from several prepared roots) of appends, batch appends and consuming reads over a size/budget alphabet chosen around block and double-peek boundaries, executed on the real engine; every returned entry is compared with a FIFO model (order, exactly-once, byte identity, empty only when drained). This is the right level because the property is a universally quantified statement about op sequences and the engine state is too irregular for tests to enumerate.",
   note=SEQ_NOTE),
}
def cmd(i,t): return f"./check {i} --tier {t}"
repo_commits=subprocess.run(["git","-C","/repo","log","--format=%h %s","ae09759..HEAD"],capture_output=True,text=True).stdout.strip().split("\n")
hook_commits=[c for c in repo_commits if c.split(" ",1)[1].startswith("verif hooks")]
m={"version":1,
 "setup_cmd":"/verif/tools/setup.sh",
 "hooks":{"guard":"walrus_verif","enable":"RUSTFLAGS=\"--cfg walrus_verif\" plus WALRUS_VERIF_* geometry variables (set by /verif/engines/build.sh for every engine build)",
   "baseline_off_cmd":"cd /repo && cargo nextest run --workspace --no-fail-fast --test-threads 8 --offline || cargo test --workspace --no-fail-fast --offline",
   "source_commits":hook_commits,"add_only":True},
 "engines":[{"name":"walmc-seq","path":"engines/walmc","serves_properties":[i for i in CHECKS if CHECKS[i]["engine"]=="walmc-seq"],"kind_free_text":"explicit-state BFS over API histories on the real engine (E1)"}],
 "checks":[{"property_id":i,"quick_cmd":cmd(i,"quick"),"thorough_cmd":cmd(i,"thorough"),"evidence_file":f"/verif/evidence/{i}.json",
            "replay_cmd_template":"./check --replay {path}","engine":c["engine"],
            "level_claimed":{"category":c["category"],"text":c["text"],"design_ref":"DESIGN.md section "+c["design"]},
            "level_note":c["note"],"technique":c["technique"]} for i,c in CHECKS.items()],
 "notes":"see DESIGN.md; known findings in known_findings.json",
 "not_applicable":[{"property_id":i,"reason":"check not built yet (work in progress, see DESIGN.md section 9)"} for i in ids if i not in CHECKS]}
json.dump(m,open('/verif/MANIFEST.json','w'),indent=1)
print("checks:",len(CHECKS),"n/a:",len(m["not_applicable"]))
