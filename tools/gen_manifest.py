#!/usr/bin/env python3
"""Regenerates /verif/MANIFEST.json from the table below (kept valid at all times)."""
import json, subprocess
ids=[json.loads(l)['id'] for l in open('/verif/properties.jsonl')]
SEQ_NOTE=("Trusted: the reference model (FIFO per topic, counters, flags), the small build-time geometry (2 KiB blocks, 4 blocks/file, "
 "8 KiB allocation cap) standing for the real constants, the executor that drives the public API inside worker processes "
 "(process-global block/file trackers are reset between executions by a cfg-guarded hook; Restart is a real fork only in isolated runs). "
 "Bounded: nothing is claimed beyond the depth, alphabet and configurations recorded in the evidence file.")
def seq(design,technique,text,note=SEQ_NOTE):
    return dict(engine="walmc-seq", category="model_checking", design=design, technique=technique, text=text, note=note)
BFS="explicit-state BFS over API op sequences on the real engine, "
CHECKS={
 "C01": seq("C01", BFS+"checked step-by-step against a FIFO reference model",
   "Exhaustive breadth-first exploration of all sequences (bounded depth, from several prepared roots) of appends, batch appends and consuming reads over a size/budget alphabet chosen around block and double-peek boundaries, executed on the real engine; every returned entry is compared with a FIFO model (order, exactly-once, byte identity, empty only when drained). This is the right level because the property is a universally quantified statement about op sequences and the engine state is too irregular for tests to enumerate."),
 "C03": seq("C03", "exhaustive product of entry layouts x cursor positions x byte budgets on the real engine, cap/budget/progress predicates on every batch read",
   "Product-mode exploration: every layout of up to 2 (quick) / 4 (thorough) entries from a 7-size menu (around the 128-byte double-peek threshold and block capacity) plus sealed+tail and 2000-entry layouts, every cursor position reachable by up to depth-1 reads, every budget of an 18-value menu (0, 1, thresholds +-1, block, usize::MAX), consuming and peeking; each result is checked for the 2000-entry cap, the byte budget (unless exactly one entry) and progress."),
 "C04": seq("C04", BFS+"with every rejection cause inserted at every position, FIFO/count model that ignores failed appends",
   "Part (a) of the design: all histories up to the bound over valid appends/reads plus every rejection cause (oversized entry, >2000 entries, empty batch, over-long topic on both paths, batch containing an oversized entry, first op on a topic failing), with reopen/restart; the model drops failed appends, so any trace of one (readable entry, changed count, duplicated or lost neighbour, before or after restart) is a discrepancy. Injected I/O failures and concurrent visibility are parts (b)/(c) (see DESIGN.md)."),
 "C06": seq("C06", BFS+"with Reopen/Restart events (<=2 quick, <=3 thorough), same FIFO model with restarts invisible",
   "All histories up to the bound of appends (including multi-unit entries), batch appends, consuming and peeking reads, rejected ops, and reopen (same process) / restart events; StrictlyAtOnce is compared exactly, AtLeastOnce for no-loss/no-reorder with bounded redelivery; counts are compared as well."),
 "C02": seq("C02", BFS+"every non-consuming op applied to every reached state and compared differentially (with / without the op) on drain and restart+drain suffixes; peek vs immediately following consuming read",
   "At every state reached by the bounded BFS over mutating ops (appends, batch appends, consuming reads, one restart), every peek (read_next / batch_read with checkpoint=false, 4 budgets) and every offset-addressed read (4-8 offsets incl. 0, mid-entry, last byte, past the end; checkpoint true and false) is executed and (ii) the observations of a following drain of all topics, and of restart + drain, must equal those of the same suffix without the op (results and counts), (iii) a peek must return exactly what the immediately following consuming read with the same arguments returns, (iv) offset reads may only return appended entries of the topic in append order, the first possibly a proper suffix. The reclamation-bookkeeping clause is decided by C12's exploration (peeks are in its alphabet)."),
 "C07": dict(engine="walmc-crash", category="model_checking", design="C07",
   technique="exhaustive crash-point enumeration: every prefix of the recorded I/O trace of every bounded workload (and every subset of an in-flight io_uring batch) materialised and recovered by the real engine",
   text="Every workload of up to 3 (quick) / 4 (thorough) ops over appends (one-byte, half-block, multi-unit), batch appends (single- and multi-block), peeks and one restart is executed once with the cfg-guarded I/O recorder on; for every crash point (after each recorded mutation: block writes, file creation steps, index/marker tmp-write and rename; inside an io_uring batch every subset of its writes) the directory image is rebuilt from the trace, opened by the real recovery code and drained. Recovery must succeed, and each topic must yield the acknowledged appends in order followed by at most entries of the op in flight.",
   note="Trusted: the process-crash model (completed syscalls persist, a single write is atomic), the recorder hooks (conformance-checked: replaying the full trace must reproduce the workload's final directory), the materialiser. Bounded by the workload alphabet/depth; small build-time geometry."),
 "C08": dict(engine="walmc-crash", category="model_checking", design="C08",
   technique="exhaustive crash-point enumeration restricted to the inside of one batch append: all subsets of the batch's independent writes, both write paths",
   text="Batch shapes of 2..6 entries (all 2^n subsets of landed writes) and 7..12 entries (thorough; prefixes, suffixes, single inclusions/omissions) spanning 1-3 blocks, preceded by 0-2 entries, on the io_uring and the sequential (mmap) path; oracle: recovered entries of the batch are none or all. The unchanged tree violates this by construction (no commit record): recorded as known finding K-C08-torn-batch, matched only for a crash strictly inside the batch call whose recovered part is an order-preserving strict subset.",
   note="Same trusted base as C07."),
 "C09": dict(engine="walmc-crash", category="model_checking", design="C09",
   technique="exhaustive crash-point enumeration over histories mixing appends, read_next and batch reads (sealed and tail positions, one restart), cursor oracle per consistency mode",
   text="From two roots (tail-only, sealed block + tail) every op sequence up to 3 (quick) / 4 (thorough) with at least one consuming read; for every crash point the recovered topic must equal the acknowledged log from a cursor position that is exactly the acknowledged one in StrictlyAtOnce (the read in flight may go either way), and in AtLeastOnce lies at most persist_every entries behind it for read_next-only histories and never ahead (no skip).",
   note="Same trusted base as C07."),
 "C10": dict(engine="walmc-crash", category="model_checking", design="C10",
   technique="exhaustive power-loss state enumeration: every trace prefix x every subset of mutations not yet covered by a sync (writes without O_SYNC/flush, renames without directory sync)",
   text="FsyncSchedule::SyncEach, both backends, every workload of up to 3 (quick) / 4 (thorough) ops over appends, batch appends and consuming reads; a power-loss state keeps all synced mutations and any subset of the unsynced ones; acknowledged appends must be readable and acknowledged StrictlyAtOnce consumption must be reflected.",
   note="Trusted: the durability rules (a write is durable if O_SYNC or followed by a flush/fsync of its file; a rename after a directory sync; file creation as soon as it happened - the harness-created namespace directory case is assumed, see DESIGN.md C10). These rules are a model of the file system."),
 "C18": dict(engine="dwmc-pure", category="model_checking", design="C18",
   technique="explicit-state BFS over metadata command sequences through the real Metadata::apply, structural invariants on every transition, plus enumerated byte strings",
   text="All sequences of up to 5 (quick) / 7 (thorough, 14 M states) commands from a 48-60 command alphabet over 2 topics + 1 unknown topic, 3 nodes, counts {0,1,2,(u64::MAX)} are applied to the repository's real state machine; every transition is checked for: segments numbered 1..current with exactly one leader each, open-segment leader = topic leader, sealed counts and leaders immutable, cumulative offset = sum of sealed counts, no panic, no state change on error; arbitrary byte strings (all of length <=1, 42 of length 2, all truncations and single-byte substitutions of valid encodings) must be rejected or applied without panic. The 'random long sequences' of the quantifier are not sampled (no sampling in this family).",
   note="The real metadata.rs is compiled unmodified via #[path] against a re-implementation of bincode 1.3's wire format (the real crate is not available offline): decode robustness is relative to that stand-in."),
 "C20": dict(engine="dwmc-pure", category="model_checking", design="C20",
   technique="C18's BFS with restore(snapshot()) into a fresh state machine at every distinct state and lock-step continuation",
   text="Part (a): at every distinct state of the depth-4 (quick) / depth-5 (thorough) BFS over metadata commands, Metadata::restore(Metadata::snapshot()) into a fresh instance must reproduce the canonical state, and original and restored replica must answer and evolve identically under two further levels of commands. Part (b) (snapshot through the Raft state-machine adapter) is decided by the octopii storage harness where built, see DESIGN.md.",
   note="Same stand-in caveat as C18."),
 "C25": dict(engine="dwmc-pure", category="model_checking", design="C25",
   technique="exhaustive enumeration of topic strings over a 6-symbol alphabet x boundary segment numbers through the real wal_key / parse_wal_key",
   text="Every topic of length 0..6 (quick) / 0..7 (thorough) over {t s _ 0 1 a} plus specials (names ending in _s_, _s_7, t_, a non-ASCII and a 300-byte name) x segment numbers {0..20 (quick) / 0..1000}, every 10^k-1, 10^k, 10^k+1, u64::MAX: parse(wal_key(t,s)) == (t,s); injectivity is checked on all topics x 7 segment numbers with a hash map of generated keys.",
   note="The u64 range is covered up to digit shape only; the closing argument (no '_' in a decimal rendering) is stated, not checked."),
 "C12": seq("C12", BFS+"background reclaimer gated (one loop iteration with deletions per ReclaimTick), each execution in a pristine forked process, FIFO model in-process and after restart",
   "Histories that fully allocate a file in the small geometry (4 blocks per file) from prepared roots, then all sequences up to the bound of consuming reads of both APIs, empty polls, peeks, reclaim ticks and a restart; every reached state is additionally followed by [reclaim tick, drain all] and [reclaim tick, restart, drain all]. Any unconsumed entry that became unreadable (in process or after restart) is a violation; so is a redelivery after restart in StrictlyAtOnce mode."),
 "C13": seq("C13", BFS+"2-3 live instances (distinct keys / same key in distinct data dirs) in one pristine process per execution, per-instance FIFO/count/marker model, reclaimer gated",
   "All interleavings (as sequences) up to the bound of appends, consuming reads, reclaim ticks and reopen of one instance, over two or three live instances in one process, from roots including one where both instances own a fully allocated file; each instance's reads, counts and markers are compared with its own reference model, and every state is followed by [reclaim tick, restart, drain both]. One genuine defect is recorded as a known finding (K-C13-block-id-collision)."),
 "C14": dict(engine="walmc-seq", category="model_checking", design="C14",
   technique="exhaustive enumeration of namespace keys over a 9-symbol alphabet up to a length bound, through every constructor, on the real engine with a directory-tree oracle",
   text="Every key of length 0..3 (quick; 0..4 thorough for the builder with explicit data dir, 0..3 for the other six constructors) over {a - _ . / space NUL e-acute backslash} plus dot/dot-dot specials and a 300-byte key is opened through new_for_key, with_consistency_for_key, with_consistency_and_schedule_for_key, the builder with and without data_dir, WALRUS_INSTANCE_KEY and the thread namespace; after one append the whole sandbox tree is listed and every file must lie under data/<one real directory>/.",
   note="Trusted: the directory walk of the sandbox root; env-based constructors run in a forked child each. Only the listed alphabet and lengths are covered."),
 "C15": seq("C15", BFS+"count oracle (appended minus consumed) evaluated after every op",
   "All histories up to the bound over appends, batch appends, rejected ops, consuming reads, peeks, offset reads, reopen and restart on two topics; after every op the reported count of every topic must equal appended minus consumed of the reference model (after a restart only in StrictlyAtOnce mode)."),
 "C16": seq("C16", BFS+"every history executed once per backend, API-level observation streams compared",
   "Differential: every history of the C06/C15 alphabet (including rejected ops and restarts) is executed on the FD/io_uring backend and on the mmap backend; results, errors, returned entries and counts must be identical at every step. No reference model is involved."),
 "C17": seq("C17", BFS+"marker persister thread gated so that 'reopen at any delay' is an explicit choice",
   "All histories up to depth 5 (quick) / 7 (thorough) of append, mark_clean, mark_dirty, persister tick, reopen and restart on two topics; the marker persister thread is parked at a cfg-guarded gate and only runs when the history says so, which makes 'reopen immediately' and 'reopen after the persister ran' both reachable deterministically; topic_is_clean is compared with a flag model after every op."),
}
def cmd(i,t): return f"./check {i} --tier {t}"
repo_commits=subprocess.run(["git","-C","/repo","log","--format=%h %s","ae09759..HEAD"],capture_output=True,text=True).stdout.strip().split("\n")
hook_commits=[c for c in repo_commits if c.split(" ",1)[1].startswith("verif hooks")]
m={"version":1,
 "setup_cmd":"/verif/tools/setup.sh",
 "hooks":{"guard":"walrus_verif","enable":"RUSTFLAGS=\"--cfg walrus_verif\" plus WALRUS_VERIF_* geometry variables (set by /verif/engines/build.sh for every engine build)",
   "baseline_off_cmd":"cd /repo && cargo nextest run --workspace --no-fail-fast --test-threads 8 --offline || cargo test --workspace --no-fail-fast --offline",
   "source_commits":hook_commits,"add_only":True},
 "engines":[{"name":"dwmc-pure","path":"engines/dwmc","serves_properties":["C18","C20","C25"],"kind_free_text":"explicit-state BFS / enumeration over distributed-walrus source files compiled unmodified against stand-in crates (E4 pure part)"},{"name":"walmc-crash","path":"engines/walmc/src/crash.rs","serves_properties":["C07","C08","C09","C10"],"kind_free_text":"crash / power-loss state enumeration from recorded I/O traces on the real engine (E2)"},{"name":"walmc-seq","path":"engines/walmc","serves_properties":[i for i in CHECKS if CHECKS[i]["engine"]=="walmc-seq"],"kind_free_text":"explicit-state BFS over API histories on the real engine (E1)"}],
 "checks":[{"property_id":i,"quick_cmd":cmd(i,"quick"),"thorough_cmd":cmd(i,"thorough"),"evidence_file":f"/verif/evidence/{i}.json",
            "replay_cmd_template":"./check --replay {path}","engine":c["engine"],
            "level_claimed":{"category":c["category"],"text":c["text"],"design_ref":"DESIGN.md section "+c["design"]},
            "level_note":c["note"],"technique":c["technique"]} for i,c in CHECKS.items()],
 "notes":"see DESIGN.md; known findings in known_findings.json",
 "not_applicable":[{"property_id":i,"reason":"check not built yet (work in progress, see DESIGN.md section 9)"} for i in ids if i not in CHECKS]}
json.dump(m,open('/verif/MANIFEST.json','w'),indent=1)
print("checks:",len(CHECKS),"n/a:",len(m["not_applicable"]))
