#!/bin/bash
# Builds every engine from files on disk (offline).
set -e
/verif/engines/build.sh rel-small >/dev/null 2>&1 || { /verif/engines/build.sh rel-small | tail -30; exit 1; }
/verif/engines/build.sh dwmc >/dev/null 2>&1 || { /verif/engines/build.sh dwmc | tail -30; exit 1; }
/verif/engines/build.sh ocmc >/dev/null 2>&1 || { /verif/engines/build.sh ocmc | tail -30; exit 1; }
/verif/engines/build.sh asan-small >/dev/null 2>&1 || echo "note: ASan build failed (C11 will run without it)"
echo "setup ok"
