#!/bin/bash
# run_thorough.sh [id...] : runs the thorough tier of the named checks (default: all) one after the
# other against /repo's working tree, keeps each thorough evidence file as evidence/thorough/<id>.json
# and puts the quick-tier evidence file back. One summary line per check on stdout.
cd /verif
ids="$@"; [ -z "$ids" ] && ids="C18 C25 C20 C24 C21 C19 C22 C23 C05 C17 C14 C08 C10 C09 C07 C03 C02 C12 C13 C16 C15 C04 C06 C01 C11"
mkdir -p evidence/thorough /verif/target/thorough-logs
for id in $ids; do
  cp evidence/$id.json /verif/target/thorough-logs/$id.quick.json 2>/dev/null
  s=$(date +%s)
  ./check $id --tier thorough > /verif/target/thorough-logs/$id.log 2>&1; rc=$?
  e=$(date +%s)
  cp evidence/$id.json evidence/thorough/$id.json 2>/dev/null
  cp /verif/target/thorough-logs/$id.quick.json evidence/$id.json 2>/dev/null
  echo "$id exit=$rc secs=$((e-s)) viol=$(grep -c '^VIOLATION' /verif/target/thorough-logs/$id.log) known=$(grep -c '^KNOWN-FINDING' /verif/target/thorough-logs/$id.log) $(grep -E "^$id thorough" /verif/target/thorough-logs/$id.log | grep -oE 'exhaustive=[a-z]+|depth_completed=[0-9]+' | tr '\n' ' ')"
done
