#!/bin/bash
# run_seeded.sh [id...] : applies each /verif/seeded/<id>/patch.diff to /repo, runs the quick checks named in
# seeded/<id>/checks (default: the property itself), reverts. Prints one line per (mutant, check).
cd /verif
ids="$@"; [ -z "$ids" ] && ids=$(ls seeded)
for m in $ids; do
  d=seeded/$m
  checks=$( [ -f $d/checks ] && cat $d/checks || jq -r '.property' $d/meta.json )
  if [ ! -f $d/patch.diff ]; then echo "$m: obsolete (no patch.diff, see meta.json)"; continue; fi
  if ! git -C /repo apply --check $PWD/$d/patch.diff 2>/dev/null; then echo "$m: patch does not apply"; continue; fi
  git -C /repo apply $PWD/$d/patch.diff
  for c in $checks; do
    out=$(./check $c --tier quick 2>&1); rc=$?
    echo "$m vs $c: exit $rc $(echo "$out" | grep -c '^VIOLATION') violation line(s)"
  done
  git -C /repo checkout -- .
done
