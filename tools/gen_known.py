#!/usr/bin/env python3
"""Regenerates /verif/known_findings.json (fixed entries resolve their commit hash from /repo's log).
Run by hand after a fix: commit; never run by a check."""
import json,subprocess
log=subprocess.run(["git","-C","/repo","log","--format=%h %s","ae09759..HEAD"],capture_output=True,text=True).stdout.strip().split("\n")
fix=[(l.split(" ",1)[0],l.split(" ",1)[1]) for l in log if l.split(" ",1)[1].startswith("fix:")]
def c(prefix):
    for h,s in fix:
        if s.startswith("fix: "+prefix): return h
    raise SystemExit("no commit for "+prefix)
FIXED=[
 ("F-C03-overflow",["C03","C01"],c("batch read byte budget near usize::MAX"),"batch_read(usize::MAX) with the cursor at a non-zero offset of a sealed block: cur_off + want overflowed (dev: panic; release: unread sealed entries skipped)","append(a,half); append(a,half); append(a,128); read_next(a); batch_read(a,MAX,ckpt)"),
 ("F-C03-zero-budget",["C03","C01"],c("batch read with a byte budget of 0"),"batch_read with budget 0 returned nothing while unread entries sat in sealed blocks","append(a,half)x2; append(a,128); batch_read(a,0,ckpt)"),
 ("F-C01-empty-payload",["C01","C03"],c("batch read consumed zero-length"),"batch_read consumed zero-length entries (cursor and count advanced) without returning them","append(a,0); batch_read(a,MAX,ckpt) -> []"),
 ("F-C01-partial-sealed",["C01"],c("batch read whose byte budget ended inside"),"a consuming batch read whose budget ended inside a sealed block went on to the writer tail and skipped the rest of the block","append(a,1); append(a,129); read_next; batch(a,[1,half]); append(a,128); batch_read(a,257,ckpt) -> [129,128]"),
 ("F-C04-seal-then-fail",["C04","C15","C01"],c("a rejected append left the active block"),"an append rejected by the allocator (entry over the allocation cap) had already sealed and published the active block, which stayed active: earlier entries were delivered twice","append 1; append 2; append(>cap) -> Err; append 3; reads -> 1,2,1,2,3"),
 ("F-C17-marker-lost",["C17"],c("clean/dirty markers changed shortly"),"mark_topic_clean/dirty or an append followed by an immediate clean shutdown was not persisted (persister thread exits without writing)","mark_dirty(a); reopen -> topic_is_clean(a) == true"),
 ("F-C06-empty-poll-cursor",["C06","C09","C15"],c("an empty read_next poll on the tail"),"an empty read_next poll at the tail persisted offset 0 of the active block, overwriting the durable cursor; consumed tail entries were redelivered after a restart","append x3; batch_read(MAX,ckpt); read_next -> None; reopen -> count 1, entry redelivered"),
 ("F-C06-unwritten-block",["C06","C04","C15"],c("recovery stopped scanning a file at the first block"),"recovery treated the first all-zero unit of a file as the end of its data; blocks allocated after an allocated-but-unwritten block vanished on restart","batch(x,[]) as first op on topic x; append(t) x2; reopen -> t empty"),
 ("F-C06-multi-unit",["C06","C15"],c("recovery mis-parsed blocks spanning several units"),"recovery scanned one unit at a time and mis-parsed the interior of a block spanning several units; following blocks were lost","append(first); append(1.5 blocks); append(last); reopen -> last lost"),
 ("F-C02-alo-offset-read",["C02","C06"],c("an offset-addressed batch read with checkpoint=true"),"AtLeastOnce: batch_read with an explicit start offset and checkpoint=true moved the shared consumer cursor","[AtLeastOnce] append x3; restart; batch_read(a,300,ckpt,Some(0)); read_next -> second entry"),
 ("F-C14-dot-keys",["C14"],c("the namespace keys"),"the keys \".\" and \"..\" mapped to the data directory itself / its parent","new_for_key(\"..\"); append -> WAL file created in the parent of the data dir"),
 ("F-C12-counter-inflation",["C12","C02"],c("a fully consumed block was counted"),"a fully consumed block was counted towards its file's reclamation threshold on every poll / peek starting at its end; the file was deleted with unconsumed entries","file 1 = a,a,b,a; batch_read(a,1); 3 peeks; reclaim; restart -> entries lost"),
 ("F-C06-empty-sealed-block",["C06","C15"],c("an empty sealed block in the reader chain"),"an empty sealed block in the reader chain (first entry larger than the initial block) shifted the persisted chain index after restart: unread entries lost","append(a,>block); batch(a,[half,half,127]); read_next; restart -> count 0, 3 entries lost"),
 ("F-C07-short-leftovers",["C07","C11"],c("recovery panicked on the leftovers"),"mmap backend: recovery panicked on an empty WAL file left by a crash between create and set_len, and on a leftover *_index.db.tmp","crash right after File::create of a new WAL file; reopen with the mmap backend"),
 ("F-C07-overread",["C07","C06"],c("recovery read past the end of a nearly full last block"),"mmap backend: recovery read a header past the end of the last block of a file when less than a header of room was left: panic, instance cannot be reopened","last block of a file filled to within 255 bytes; reopen with the mmap backend"),
 ("F-C10-cursor-dirsync",["C10"],c("the persisted read cursor was renamed"),"the cursor index was renamed into place without a directory sync: an acknowledged StrictlyAtOnce consumption could be undone by a power loss","[SyncEach] append; read_next -> power cut -> entry redelivered"),
 ("F-C18-offset-overflow",["C18"],c("a rollover whose sealed count overflowed"),"RolloverTopic with a count that overflows the cumulative sealed offset wrapped it (panic in debug builds)","CreateTopic a; Rollover(count 1); Rollover(count u64::MAX) -> offset 0"),
 ("F-C05-stale-snapshot-batch-read",["C05"],c("a batch read racing with a block rotation"),"a batch read racing with a block rotation returned the old tail block's entries twice in one call (writer snapshot taken before the column lock)","threads: batch(a,[half,143]) || batch_read(a,MAX): rotation between the reader's writer snapshot and its column lock"),
 ("F-C05-concurrent-read-next",["C05"],c("two concurrent read_next calls on the writer's tail"),"two concurrent read_next calls on the writer's tail could both return the same entry","threads: read_next || read_next on a topic with 2 tail entries, second reader runs between the first one's tail snapshot and commit"),
 ("F-C05-rotation-before-commit",["C05"],c("read_next lost its tail progress"),"read_next lost its tail progress when the writer sealed the block between the read and the commit: the entry was delivered again","threads: append (rotating) || read_next: rotation between the reader's tail read and its commit"),
 ("F-C05-skipped-sealed-block",["C05"],c("read_next could skip a block"),"read_next skipped a block sealed between its chain check and its writer snapshot and returned the first entry of the new block out of order","threads: append (rotating) || read_next: rotation between the reader's chain check and its writer snapshot"),
]
OPEN=[
 # (id, [properties], title, witness)
 ("K-C06-tail-id-drift",["C04","C06","C15"],
  "the durable cursor of a consumer in the writer's tail names the block by allocator id, recovery re-derives ids by position: a block handed out but never written (rejected first append on a topic, empty batch opening a topic) that ends up last in its file shifts later ids by one, the persisted tail block is not found after restart and the StrictlyAtOnce consumer starts over (redelivery, no loss). Repair needs block ids (or a position) in the on-disk format: recorded, not repaired.",
  "append(a,half) x2; append(a,128); append on a 300-byte topic name -> Err; append(a, one byte over a block); batch_read(a,MAX,ckpt); restart -> count(a) = 4, everything redelivered"),
 ("K-C08-torn-batch",["C08"],
  "a batch append writes its entries with independent writes (one io_uring write per entry, or sequential block writes on the mmap path) and has no commit record; recovery accepts every checksum-valid entry it finds, so a crash inside the batch call leaves a non-empty strict subset of the batch readable. The repository's own design note claims atomicity for in-process readers only. Repair needs a commit marker in the on-disk format: recorded, not repaired.",
  "batch(a,[half,half,127]) with the process dying after the first of the three writes landed -> the topic holds 1 of the 3 entries"),
 ("K-C21-second-restart-empty",["C21","C19"],
  "octopii's WriteAheadLog::read_all replays the log with consuming, checkpointing batch reads on a StrictlyAtOnce instance, so the first recovery makes its read position durable and every later start of the WAL-backed Raft log store (and of the peer address book) recovers nothing: empty log, no vote, no committed id, no addresses. octopii's vendored engine copy never advances an AtLeastOnce batch cursor and skips small entries at start offset 0, so neither a mode switch nor offset reads repair it in a few lines: recorded, not repaired.",
  "append 2 entries; restart (ok); restart -> get_log_state (None, None), read_vote None, entries []"),
 ("K-C13-block-id-collision",["C13"],
  "two instances in one process number their blocks from 1 and share the process-global block tracker (first registration of an id wins): consumption by one instance is credited to the other's file, which the reclaimer then deletes with unconsumed entries in it. Repair needs the tracker keyed by (instance, block id) at ~15 call sites: recorded, not repaired.",
  "open(0,k0); open(1,k1); instance 0: 5 block-filling appends; instance 1: 5 block-filling appends, batch_read(MAX), append; reclaim tick; restart -> instance 0 has 1 of its 5 entries left"),
]
out={"comment":"Genuine defects of nubskr/walrus found by the checks in /verif. status=open: recorded, not repaired; the matching check prints KNOWN-FINDING and exits 0 for exactly this failing step (predicate of the same id in the engine source). status=fixed: repaired by the named 'fix:' commit in /repo; suppresses nothing. Never written at run time.",
 "findings":[{"id":i,"property":p,"status":"fixed","commit":cm,"title":t,"witness":w,"line":f"fixed: property={p[0]} {cm} {t}"} for i,p,cm,t,w in FIXED]
          +[{"id":i,"property":p,"status":"open","title":t,"witness":w} for i,p,t,w in OPEN]}
json.dump(out,open('/verif/known_findings.json','w'),indent=1)
print("fixed",len(FIXED),"open",len(OPEN))
