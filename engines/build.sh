#!/bin/bash
# build.sh <config> : builds walmc against /repo's working tree in the named configuration
#   rel-small | dev-small | rel-real | dev-real
set -e
cfg="$1"
if [ "$cfg" = "ocmc" ]; then
  cd /verif/engines/ocmc && CARGO_NET_OFFLINE=true CARGO_TARGET_DIR=${VERIF_TARGET:-/verif/target}/ocmc cargo build --offline --release 2>&1
  exit $?
fi
if [ "$cfg" = "dwmc" ]; then
  cd /verif/engines/dwmc && CARGO_NET_OFFLINE=true CARGO_TARGET_DIR=${VERIF_TARGET:-/verif/target}/dwmc cargo build --offline --release 2>&1
  exit $?
fi
cd /verif/engines/walmc
export CARGO_NET_OFFLINE=true
export RUSTFLAGS="--cfg walrus_verif"
export CARGO_TARGET_DIR=${VERIF_TARGET:-/verif/target}/$cfg
if [ "$cfg" = "asan-small" ]; then
  export WALRUS_VERIF_BLOCK_SIZE=2048 WALRUS_VERIF_BLOCKS_PER_FILE=4 WALRUS_VERIF_MAX_ALLOC=8192 WALRUS_VERIF_MAX_BATCH_BYTES=1048576
  export RUSTFLAGS="--cfg walrus_verif -Zsanitizer=address"
  export ASAN_OPTIONS=detect_leaks=0
  cargo +nightly build --offline --release --target x86_64-unknown-linux-gnu 2>&1
  exit $?
fi
case "$cfg" in
  *-small)
    export WALRUS_VERIF_BLOCK_SIZE=2048 WALRUS_VERIF_BLOCKS_PER_FILE=4 WALRUS_VERIF_MAX_ALLOC=8192 WALRUS_VERIF_MAX_BATCH_BYTES=1048576 ;;
  *-real)
    unset WALRUS_VERIF_BLOCK_SIZE WALRUS_VERIF_BLOCKS_PER_FILE WALRUS_VERIF_MAX_ALLOC WALRUS_VERIF_MAX_BATCH_BYTES ;;
  *) echo "unknown config $cfg" >&2; exit 2 ;;
esac
case "$cfg" in
  rel-*) cargo build --offline --release 2>&1 ;;
  dev-*) cargo build --offline 2>&1 ;;
esac
