use std::pin::Pin; use std::task::{Context,Poll}; use std::future::Future;
pub trait Stream { type Item; fn poll_next(self:Pin<&mut Self>,cx:&mut Context<'_>)->Poll<Option<Self::Item>>; }
pub trait TryStreamExt: Stream { fn try_next<T,E>(&mut self)->TryNext<'_,Self> where Self:Stream<Item=Result<T,E>>+Unpin+Sized { TryNext(self) } }
impl<S:Stream+?Sized> TryStreamExt for S {}
pub struct TryNext<'a,S:?Sized>(&'a mut S);
impl<'a,S,T,E> Future for TryNext<'a,S> where S:Stream<Item=Result<T,E>>+Unpin{ type Output=Result<Option<T>,E>;
  fn poll(mut self:Pin<&mut Self>,cx:&mut Context<'_>)->Poll<Self::Output>{ match Pin::new(&mut *self.0).poll_next(cx){ Poll::Ready(Some(Ok(v)))=>Poll::Ready(Ok(Some(v))), Poll::Ready(Some(Err(e)))=>Poll::Ready(Err(e)), Poll::Ready(None)=>Poll::Ready(Ok(None)), Poll::Pending=>Poll::Pending } } }
pub mod stream { use super::*; pub struct Iter<I>(pub I); impl<I:Iterator+Unpin> Stream for Iter<I>{ type Item=I::Item; fn poll_next(mut self:Pin<&mut Self>,_:&mut Context<'_>)->Poll<Option<I::Item>>{ Poll::Ready(self.0.next()) } } pub fn iter<I:IntoIterator>(i:I)->Iter<I::IntoIter>{Iter(i.into_iter())} }
