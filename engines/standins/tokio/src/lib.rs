pub mod sync {
    pub struct Mutex<T>(std::sync::Mutex<T>);
    pub type MutexGuard<'a,T> = std::sync::MutexGuard<'a,T>;
    impl<T> Mutex<T>{ pub fn new(t:T)->Self{Self(std::sync::Mutex::new(t))} pub async fn lock(&self)->MutexGuard<'_,T>{ self.0.lock().unwrap() } }
    impl<T:std::fmt::Debug> std::fmt::Debug for Mutex<T>{ fn fmt(&self,f:&mut std::fmt::Formatter<'_>)->std::fmt::Result{ write!(f,"Mutex") } }
    impl<T:Default> Default for Mutex<T>{ fn default()->Self{Self::new(T::default())} }
    pub struct OwnedMutexGuard<T>(pub std::sync::Arc<Mutex<T>>);
    pub struct RwLock<T>(std::sync::RwLock<T>);
    impl<T> RwLock<T>{ pub fn new(t:T)->Self{Self(std::sync::RwLock::new(t))}
        pub async fn read(&self)->std::sync::RwLockReadGuard<'_,T>{self.0.read().unwrap()}
        pub async fn write(&self)->std::sync::RwLockWriteGuard<'_,T>{self.0.write().unwrap()} }
}
pub mod task { pub fn block_in_place<F:FnOnce()->R,R>(f:F)->R{ f() }
  #[derive(Debug)] pub struct JoinError; impl std::fmt::Display for JoinError{fn fmt(&self,f:&mut std::fmt::Formatter<'_>)->std::fmt::Result{write!(f,"join error")}} impl std::error::Error for JoinError{}
  pub struct JoinHandle<T>(pub Option<T>);
  impl<T:Unpin> std::future::Future for JoinHandle<T>{ type Output=Result<T,JoinError>; fn poll(mut self:std::pin::Pin<&mut Self>,_:&mut std::task::Context<'_>)->std::task::Poll<Self::Output>{ std::task::Poll::Ready(Ok(self.0.take().unwrap())) } }
  pub fn spawn_blocking<F:FnOnce()->R+Send+'static,R:Send+'static>(f:F)->JoinHandle<R>{ JoinHandle(Some(f())) } }
pub mod time { pub use std::time::Duration; pub async fn sleep(_d:Duration){}
  pub struct Interval; impl Interval{ pub async fn tick(&mut self){} } pub fn interval(_d:Duration)->Interval{Interval}
  pub mod error { #[derive(Debug)] pub struct Elapsed; impl std::fmt::Display for Elapsed{fn fmt(&self,f:&mut std::fmt::Formatter<'_>)->std::fmt::Result{write!(f,"elapsed")}} impl std::error::Error for Elapsed{} }
  pub async fn timeout<F:std::future::Future>(_d:Duration,f:F)->Result<F::Output,error::Elapsed>{ Ok(f.await) } }
pub mod runtime { pub struct Handle; impl Handle{ pub fn current()->Self{Handle} pub fn block_on<F:std::future::Future>(&self,f:F)->F::Output{ crate::block_on(f) } } }
pub fn block_on<F:std::future::Future>(f:F)->F::Output{
    use std::task::*; use std::pin::pin;
    fn raw()->RawWaker{ fn no(_:*const()){} fn cl(_:*const())->RawWaker{raw()} static V:RawWakerVTable=RawWakerVTable::new(cl,no,no,no); RawWaker::new(std::ptr::null(),&V) }
    let w=unsafe{Waker::from_raw(raw())}; let mut cx=Context::from_waker(&w); let mut f=pin!(f);
    loop{ if let Poll::Ready(v)=f.as_mut().poll(&mut cx){return v;} }
}
pub mod sync_ext {}
impl<T> sync::Mutex<T> { pub async fn lock_owned(self: std::sync::Arc<Self>) -> sync::OwnedMutexGuard<T> { sync::OwnedMutexGuard(self) } }
pub mod sync2 {}
pub mod __own { }

pub mod task2 {}
pub fn spawn<F>(f: F) -> task::JoinHandle<F::Output> where F: std::future::Future + 'static, F::Output: 'static { task::JoinHandle(Some(block_on(f))) }
pub mod net {
    use std::net::SocketAddr; use std::io;
    pub async fn lookup_host<T: ToString>(host: T) -> io::Result<std::vec::IntoIter<SocketAddr>> { host.to_string().parse::<SocketAddr>().map(|a| vec![a].into_iter()).map_err(|e| io::Error::new(io::ErrorKind::Other, e.to_string())) }
    pub struct TcpListener; pub struct TcpStream { pub inp: std::collections::VecDeque<u8>, pub out: Vec<u8> }
    impl TcpListener { pub async fn bind(_a: &str) -> io::Result<Self> { Ok(TcpListener) } pub async fn accept(&self) -> io::Result<(TcpStream, SocketAddr)> { Err(io::Error::new(io::ErrorKind::Other, "no more")) } }
}
pub mod io {
    use std::io;
    pub trait AsyncReadExt { async fn read_exact(&mut self, buf: &mut [u8]) -> io::Result<usize>; }
    pub trait AsyncWriteExt { async fn write_all(&mut self, buf: &[u8]) -> io::Result<()>; }
    impl AsyncReadExt for crate::net::TcpStream { async fn read_exact(&mut self, buf: &mut [u8]) -> io::Result<usize> { if self.inp.len() < buf.len() { return Err(io::Error::new(io::ErrorKind::UnexpectedEof, "eof")); } for b in buf.iter_mut() { *b = self.inp.pop_front().unwrap(); } Ok(buf.len()) } }
    impl AsyncWriteExt for crate::net::TcpStream { async fn write_all(&mut self, buf: &[u8]) -> io::Result<()> { self.out.extend_from_slice(buf); Ok(()) } }
}
