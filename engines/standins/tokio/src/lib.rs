//! Stand-in for the part of `tokio` that distributed-walrus and octopii's storage files use:
//! a deterministic single-threaded executor whose every scheduling decision is taken by a
//! chooser installed by the harness. Every stand-in await (lock acquisition, spawn_blocking,
//! sleep, interval tick, socket I/O, and the `yield_point` the octopii stand-in calls around
//! RPCs and proposals) is a scheduling point. Interval ticks never fire by themselves: the
//! harness fires them as explicit events.
#![allow(warnings)]
use std::cell::{RefCell, UnsafeCell};
use std::collections::{HashMap, VecDeque};
use std::future::Future;
use std::pin::Pin;
use std::sync::Arc;
use std::task::{Context, Poll, RawWaker, RawWakerVTable, Waker};

// --------------------------------------------------------------------------- executor

#[derive(Clone, Debug, PartialEq)]
pub enum TaskState {
    Ready,
    /// blocked on a lock / join / socket / tick; the string says on what
    Blocked(String),
    Done,
}

struct Task {
    fut: Option<Pin<Box<dyn Future<Output = ()>>>>,
    state: TaskState,
    name: String,
}

pub struct Rt {
    tasks: Vec<Task>,
    current: Option<usize>,
    last_point: String,
    /// interval id -> number of fired-but-unconsumed ticks
    ticks: HashMap<usize, usize>,
    next_interval: usize,
    interval_owner: HashMap<usize, usize>,
}

thread_local! {
    static RT: RefCell<Option<Rt>> = const { RefCell::new(None) };
}

fn noop_waker() -> Waker {
    fn raw() -> RawWaker {
        fn no(_: *const ()) {}
        fn cl(_: *const ()) -> RawWaker {
            raw()
        }
        static V: RawWakerVTable = RawWakerVTable::new(cl, no, no, no);
        RawWaker::new(std::ptr::null(), &V)
    }
    unsafe { Waker::from_raw(raw()) }
}

fn with_rt<R>(f: impl FnOnce(&mut Rt) -> R) -> R {
    RT.with(|r| f(r.borrow_mut().as_mut().expect("tokio stand-in: no runtime")))
}

pub mod sim {
    //! Harness-facing control surface.
    use super::*;

    pub fn reset() {
        RT.with(|r| {
            *r.borrow_mut() = Some(Rt { tasks: vec![], current: None, last_point: String::new(), ticks: HashMap::new(), next_interval: 0, interval_owner: HashMap::new() })
        });
    }
    pub fn shutdown() {
        // drop all tasks (and what they own)
        let tasks = RT.with(|r| r.borrow_mut().take());
        drop(tasks);
    }
    pub fn spawn_named<F: Future<Output = ()> + 'static>(name: &str, f: F) -> usize {
        with_rt(|rt| {
            rt.tasks.push(Task { fut: Some(Box::pin(f)), state: TaskState::Ready, name: name.to_string() });
            rt.tasks.len() - 1
        })
    }
    pub fn ready_tasks() -> Vec<usize> {
        with_rt(|rt| rt.tasks.iter().enumerate().filter(|(_, t)| t.state == TaskState::Ready).map(|(i, _)| i).collect())
    }
    pub fn task_state(i: usize) -> TaskState {
        with_rt(|rt| rt.tasks[i].state.clone())
    }
    pub fn task_name(i: usize) -> String {
        with_rt(|rt| rt.tasks[i].name.clone())
    }
    pub fn task_count() -> usize {
        with_rt(|rt| rt.tasks.len())
    }
    pub fn last_point() -> String {
        with_rt(|rt| rt.last_point.clone())
    }
    /// intervals with a task waiting for a tick: (interval id, owner task)
    pub fn waiting_intervals() -> Vec<(usize, usize)> {
        with_rt(|rt| {
            let mut v: Vec<(usize, usize)> = rt
                .interval_owner
                .iter()
                .filter(|(_, t)| matches!(&rt.tasks[**t].state, TaskState::Blocked(s) if s.starts_with("tick")))
                .map(|(i, t)| (*i, *t))
                .collect();
            v.sort();
            v
        })
    }
    pub fn fire_tick(interval: usize) {
        with_rt(|rt| {
            *rt.ticks.entry(interval).or_insert(0) += 1;
            if let Some(t) = rt.interval_owner.get(&interval).copied() {
                if matches!(&rt.tasks[t].state, TaskState::Blocked(s) if s.starts_with("tick")) {
                    rt.tasks[t].state = TaskState::Ready;
                }
            }
        });
    }
    /// Poll task `i` once (it runs until its next scheduling point).
    pub fn step(i: usize) {
        let fut = with_rt(|rt| {
            rt.current = Some(i);
            rt.tasks[i].fut.take()
        });
        let Some(mut fut) = fut else { return };
        let w = noop_waker();
        let mut cx = Context::from_waker(&w);
        let r = fut.as_mut().poll(&mut cx);
        with_rt(|rt| {
            rt.current = None;
            match r {
                Poll::Ready(()) => {
                    rt.tasks[i].state = TaskState::Done;
                }
                Poll::Pending => {
                    rt.tasks[i].fut = Some(fut);
                }
            }
        });
        // wake joiners
        if matches!(r, Poll::Ready(())) {
            wake_blocked(&format!("join:{}", i));
        }
    }
    pub fn current() -> Option<usize> {
        with_rt(|rt| rt.current)
    }
    pub fn wake_blocked(reason: &str) {
        with_rt(|rt| {
            for t in rt.tasks.iter_mut() {
                if matches!(&t.state, TaskState::Blocked(s) if s == reason) {
                    t.state = TaskState::Ready;
                }
            }
        });
    }
    /// Used by stand-in primitives: mark the running task blocked on `reason`.
    pub fn block_current(reason: &str) {
        with_rt(|rt| {
            if let Some(c) = rt.current {
                rt.tasks[c].state = TaskState::Blocked(reason.to_string());
                rt.last_point = reason.to_string();
            }
        });
    }
    pub fn note_point(name: &str) {
        with_rt(|rt| rt.last_point = name.to_string());
    }
}

/// A scheduling point: returns Pending once (the task stays ready), then Ready.
pub struct YieldPoint {
    done: bool,
    name: &'static str,
}
impl Future for YieldPoint {
    type Output = ();
    fn poll(mut self: Pin<&mut Self>, _cx: &mut Context<'_>) -> Poll<()> {
        if self.done || !RT.with(|r| r.borrow().is_some()) {
            Poll::Ready(())
        } else {
            self.done = true;
            sim::note_point(self.name);
            Poll::Pending
        }
    }
}
pub fn yield_point(name: &'static str) -> YieldPoint {
    YieldPoint { done: false, name }
}

/// Simple synchronous driver for code that needs no scheduling (ocmc): polls to completion.
pub fn block_on<F: Future>(f: F) -> F::Output {
    let w = noop_waker();
    let mut cx = Context::from_waker(&w);
    let mut f = std::pin::pin!(f);
    loop {
        if let Poll::Ready(v) = f.as_mut().poll(&mut cx) {
            return v;
        }
    }
}

pub fn spawn<F>(f: F) -> task::JoinHandle<F::Output>
where
    F: Future + 'static,
    F::Output: 'static,
{
    let slot: Arc<std::sync::Mutex<Option<F::Output>>> = Arc::new(std::sync::Mutex::new(None));
    let s2 = slot.clone();
    let has_rt = RT.with(|r| r.borrow().is_some());
    if !has_rt {
        // no simulated runtime (ocmc): run inline
        *slot.lock().unwrap() = Some(block_on(f));
        return task::JoinHandle { slot, id: usize::MAX };
    }
    let id = sim::spawn_named("spawned", async move {
        let v = f.await;
        *s2.lock().unwrap() = Some(v);
    });
    task::JoinHandle { slot, id }
}

// ------------------------------------------------------------------------------- sync

pub mod sync {
    use super::*;

    struct LockState {
        writer: bool,
        readers: usize,
    }

    pub struct Mutex<T> {
        st: std::sync::Mutex<LockState>,
        val: UnsafeCell<T>,
        id: usize,
    }
    unsafe impl<T: Send> Send for Mutex<T> {}
    unsafe impl<T: Send> Sync for Mutex<T> {}
    static NEXT_LOCK: std::sync::atomic::AtomicUsize = std::sync::atomic::AtomicUsize::new(1);

    impl<T> Mutex<T> {
        pub fn new(t: T) -> Self {
            Self { st: std::sync::Mutex::new(LockState { writer: false, readers: 0 }), val: UnsafeCell::new(t), id: NEXT_LOCK.fetch_add(1, std::sync::atomic::Ordering::SeqCst) }
        }
        fn try_acquire(&self) -> bool {
            let mut s = self.st.lock().unwrap();
            if s.writer {
                false
            } else {
                s.writer = true;
                true
            }
        }
        fn release(&self) {
            self.st.lock().unwrap().writer = false;
            if RT.with(|r| r.borrow().is_some()) {
                sim::wake_blocked(&format!("lock:{}", self.id));
            }
        }
        pub async fn lock(&self) -> MutexGuard<'_, T> {
            yield_point("mutex.lock").await;
            loop {
                if self.try_acquire() {
                    return MutexGuard { m: self };
                }
                Blocked::on(format!("lock:{}", self.id)).await;
            }
        }
        pub async fn lock_owned(self: Arc<Self>) -> OwnedMutexGuard<T> {
            yield_point("mutex.lock_owned").await;
            loop {
                if self.try_acquire() {
                    return OwnedMutexGuard { m: self };
                }
                Blocked::on(format!("lock:{}", self.id)).await;
            }
        }
    }
    impl<T: std::fmt::Debug> std::fmt::Debug for Mutex<T> {
        fn fmt(&self, f: &mut std::fmt::Formatter<'_>) -> std::fmt::Result {
            write!(f, "Mutex")
        }
    }
    impl<T: Default> Default for Mutex<T> {
        fn default() -> Self {
            Self::new(T::default())
        }
    }
    pub struct MutexGuard<'a, T> {
        m: &'a Mutex<T>,
    }
    impl<'a, T> std::ops::Deref for MutexGuard<'a, T> {
        type Target = T;
        fn deref(&self) -> &T {
            unsafe { &*self.m.val.get() }
        }
    }
    impl<'a, T> std::ops::DerefMut for MutexGuard<'a, T> {
        fn deref_mut(&mut self) -> &mut T {
            unsafe { &mut *self.m.val.get() }
        }
    }
    impl<'a, T> Drop for MutexGuard<'a, T> {
        fn drop(&mut self) {
            self.m.release();
        }
    }
    pub struct OwnedMutexGuard<T> {
        m: Arc<Mutex<T>>,
    }
    impl<T> std::ops::Deref for OwnedMutexGuard<T> {
        type Target = T;
        fn deref(&self) -> &T {
            unsafe { &*self.m.val.get() }
        }
    }
    impl<T> std::ops::DerefMut for OwnedMutexGuard<T> {
        fn deref_mut(&mut self) -> &mut T {
            unsafe { &mut *self.m.val.get() }
        }
    }
    impl<T> Drop for OwnedMutexGuard<T> {
        fn drop(&mut self) {
            self.m.release();
        }
    }

    pub struct RwLock<T> {
        st: std::sync::Mutex<LockState>,
        val: UnsafeCell<T>,
        id: usize,
    }
    unsafe impl<T: Send> Send for RwLock<T> {}
    unsafe impl<T: Send + Sync> Sync for RwLock<T> {}
    impl<T> RwLock<T> {
        pub fn new(t: T) -> Self {
            Self { st: std::sync::Mutex::new(LockState { writer: false, readers: 0 }), val: UnsafeCell::new(t), id: NEXT_LOCK.fetch_add(1, std::sync::atomic::Ordering::SeqCst) }
        }
        pub async fn read(&self) -> RwLockReadGuard<'_, T> {
            yield_point("rwlock.read").await;
            loop {
                {
                    let mut s = self.st.lock().unwrap();
                    if !s.writer {
                        s.readers += 1;
                        return RwLockReadGuard { l: self };
                    }
                }
                Blocked::on(format!("lock:{}", self.id)).await;
            }
        }
        pub async fn write(&self) -> RwLockWriteGuard<'_, T> {
            yield_point("rwlock.write").await;
            loop {
                {
                    let mut s = self.st.lock().unwrap();
                    if !s.writer && s.readers == 0 {
                        s.writer = true;
                        return RwLockWriteGuard { l: self };
                    }
                }
                Blocked::on(format!("lock:{}", self.id)).await;
            }
        }
        fn wake(&self) {
            if RT.with(|r| r.borrow().is_some()) {
                sim::wake_blocked(&format!("lock:{}", self.id));
            }
        }
    }
    impl<T: Default> Default for RwLock<T> {
        fn default() -> Self {
            Self::new(T::default())
        }
    }
    pub struct RwLockReadGuard<'a, T> {
        l: &'a RwLock<T>,
    }
    impl<'a, T: std::fmt::Debug> std::fmt::Debug for RwLockReadGuard<'a, T> {
        fn fmt(&self, f: &mut std::fmt::Formatter<'_>) -> std::fmt::Result {
            std::fmt::Debug::fmt(&**self, f)
        }
    }
    impl<'a, T> std::ops::Deref for RwLockReadGuard<'a, T> {
        type Target = T;
        fn deref(&self) -> &T {
            unsafe { &*self.l.val.get() }
        }
    }
    impl<'a, T> Drop for RwLockReadGuard<'a, T> {
        fn drop(&mut self) {
            self.l.st.lock().unwrap().readers -= 1;
            self.l.wake();
        }
    }
    pub struct RwLockWriteGuard<'a, T> {
        l: &'a RwLock<T>,
    }
    impl<'a, T> std::ops::Deref for RwLockWriteGuard<'a, T> {
        type Target = T;
        fn deref(&self) -> &T {
            unsafe { &*self.l.val.get() }
        }
    }
    impl<'a, T> std::ops::DerefMut for RwLockWriteGuard<'a, T> {
        fn deref_mut(&mut self) -> &mut T {
            unsafe { &mut *self.l.val.get() }
        }
    }
    impl<'a, T> Drop for RwLockWriteGuard<'a, T> {
        fn drop(&mut self) {
            self.l.st.lock().unwrap().writer = false;
            self.l.wake();
        }
    }
}

/// Future that blocks the running task on `reason` until `sim::wake_blocked(reason)`.
pub struct Blocked {
    reason: String,
    armed: bool,
}
impl Blocked {
    pub fn on(reason: String) -> Self {
        Blocked { reason, armed: false }
    }
}
impl Future for Blocked {
    type Output = ();
    fn poll(mut self: Pin<&mut Self>, _cx: &mut Context<'_>) -> Poll<()> {
        if self.armed {
            return Poll::Ready(());
        }
        self.armed = true;
        if RT.with(|r| r.borrow().is_some()) {
            sim::block_current(&self.reason);
            Poll::Pending
        } else {
            panic!("tokio stand-in: would block on {} outside the simulated runtime", self.reason);
        }
    }
}

// ------------------------------------------------------------------------------- task

pub mod task {
    use super::*;
    thread_local! {
        /// harness switch: Some(n) = the process is "killed" (the call panics with
        /// KILL_MARK) when an (n+1)-th engine call is about to start
        static ENGINE_CALL_BUDGET: std::cell::Cell<Option<usize>> = const { std::cell::Cell::new(None) };
    }
    pub const KILL_MARK: &str = "tokio stand-in: killed before an engine call";
    /// Let `n` more engine calls (block_in_place bodies) run, then kill; None = no limit.
    pub fn kill_after_engine_calls(n: Option<usize>) {
        ENGINE_CALL_BUDGET.with(|b| b.set(n));
    }
    pub fn block_in_place<F: FnOnce() -> R, R>(f: F) -> R {
        ENGINE_CALL_BUDGET.with(|b| {
            if let Some(n) = b.get() {
                if n == 0 {
                    std::panic::panic_any(KILL_MARK);
                }
                b.set(Some(n - 1));
            }
        });
        f()
    }
    #[derive(Debug)]
    pub struct JoinError;
    impl std::fmt::Display for JoinError {
        fn fmt(&self, f: &mut std::fmt::Formatter<'_>) -> std::fmt::Result {
            write!(f, "join error")
        }
    }
    impl std::error::Error for JoinError {}
    pub struct JoinHandle<T> {
        pub(crate) slot: Arc<std::sync::Mutex<Option<T>>>,
        pub(crate) id: usize,
    }
    impl<T> Future for JoinHandle<T> {
        type Output = Result<T, JoinError>;
        fn poll(self: Pin<&mut Self>, _cx: &mut Context<'_>) -> Poll<Self::Output> {
            if let Some(v) = self.slot.lock().unwrap().take() {
                return Poll::Ready(Ok(v));
            }
            sim::block_current(&format!("join:{}", self.id));
            Poll::Pending
        }
    }
    /// The closure (an engine call) runs atomically, after one scheduling point.
    pub fn spawn_blocking<F: FnOnce() -> R + 'static, R: 'static>(f: F) -> BlockingCall<F, R> {
        BlockingCall { f: Some(f), yielded: false, _r: std::marker::PhantomData }
    }
    pub struct BlockingCall<F, R> {
        f: Option<F>,
        yielded: bool,
        _r: std::marker::PhantomData<R>,
    }
    impl<F, R> Unpin for BlockingCall<F, R> {}
    impl<F: FnOnce() -> R, R> Future for BlockingCall<F, R> {
        type Output = Result<R, JoinError>;
        fn poll(mut self: Pin<&mut Self>, _cx: &mut Context<'_>) -> Poll<Self::Output> {
            let in_rt = RT.with(|r| r.borrow().is_some());
            if in_rt && !self.yielded {
                self.yielded = true;
                sim::note_point("spawn_blocking");
                return Poll::Pending;
            }
            let f = self.f.take().expect("polled after completion");
            Poll::Ready(Ok(f()))
        }
    }
}

// ------------------------------------------------------------------------------- time

pub mod time {
    use super::*;
    pub use std::time::Duration;
    pub async fn sleep(_d: Duration) {
        if RT.with(|r| r.borrow().is_some()) {
            yield_point("sleep").await;
        }
    }
    pub struct Interval {
        id: usize,
        first: bool,
    }
    impl Interval {
        /// Completes only when the harness fires a tick for this interval.
        pub async fn tick(&mut self) {
            let id = self.id;
            loop {
                let got = with_rt(|rt| {
                    let c = rt.current.unwrap_or(0);
                    rt.interval_owner.insert(id, c);
                    let n = rt.ticks.entry(id).or_insert(0);
                    if *n > 0 {
                        *n -= 1;
                        true
                    } else {
                        false
                    }
                });
                if got {
                    return;
                }
                Blocked::on(format!("tick:{}", id)).await;
            }
        }
    }
    pub fn interval(_d: Duration) -> Interval {
        let id = with_rt(|rt| {
            rt.next_interval += 1;
            rt.next_interval
        });
        Interval { id, first: true }
    }
    pub mod error {
        #[derive(Debug)]
        pub struct Elapsed;
        impl std::fmt::Display for Elapsed {
            fn fmt(&self, f: &mut std::fmt::Formatter<'_>) -> std::fmt::Result {
                write!(f, "elapsed")
            }
        }
        impl std::error::Error for Elapsed {}
    }
    pub async fn timeout<F: Future>(_d: Duration, f: F) -> Result<F::Output, error::Elapsed> {
        Ok(f.await)
    }
}

pub mod runtime {
    pub struct Handle;
    impl Handle {
        pub fn current() -> Self {
            Handle
        }
        pub fn block_on<F: std::future::Future>(&self, f: F) -> F::Output {
            crate::block_on(f)
        }
    }
}

// -------------------------------------------------------------------------------- net

pub mod net {
    use super::*;
    use std::io;
    use std::net::SocketAddr;

    pub async fn lookup_host<T: ToString>(host: T) -> io::Result<std::vec::IntoIter<SocketAddr>> {
        host.to_string().parse::<SocketAddr>().map(|a| vec![a].into_iter()).map_err(|e| io::Error::new(io::ErrorKind::Other, e.to_string()))
    }

    thread_local! {
        /// bind address -> scripted incoming connections
        pub static INCOMING: RefCell<HashMap<String, VecDeque<TcpStream>>> = RefCell::new(HashMap::new());
    }
    pub fn script_connection(bind: &str, input: Vec<u8>) -> Arc<std::sync::Mutex<Vec<u8>>> {
        let out = Arc::new(std::sync::Mutex::new(Vec::new()));
        let s = TcpStream { inp: input.into(), out: out.clone() };
        INCOMING.with(|m| m.borrow_mut().entry(bind.to_string()).or_default().push_back(s));
        out
    }
    pub struct TcpListener {
        addr: String,
    }
    pub struct TcpStream {
        pub inp: VecDeque<u8>,
        pub out: Arc<std::sync::Mutex<Vec<u8>>>,
    }
    impl TcpListener {
        pub async fn bind(a: &str) -> io::Result<Self> {
            Ok(TcpListener { addr: a.to_string() })
        }
        pub async fn accept(&self) -> io::Result<(TcpStream, SocketAddr)> {
            yield_point("accept").await;
            loop {
                let s = INCOMING.with(|m| m.borrow_mut().get_mut(&self.addr).and_then(|q| q.pop_front()));
                if let Some(s) = s {
                    return Ok((s, "127.0.0.1:1".parse().unwrap()));
                }
                Blocked::on(format!("accept:{}", self.addr)).await;
            }
        }
    }
}

pub mod io {
    use std::io;
    pub trait AsyncReadExt {
        async fn read_exact(&mut self, buf: &mut [u8]) -> io::Result<usize>;
    }
    pub trait AsyncWriteExt {
        async fn write_all(&mut self, buf: &[u8]) -> io::Result<()>;
    }
    impl AsyncReadExt for crate::net::TcpStream {
        async fn read_exact(&mut self, buf: &mut [u8]) -> io::Result<usize> {
            crate::yield_point("socket.read").await;
            if self.inp.len() < buf.len() {
                // the scripted peer has closed: whatever is left is discarded, like a
                // connection closed in the middle of a frame
                self.inp.clear();
                return Err(io::Error::new(io::ErrorKind::UnexpectedEof, "eof"));
            }
            for b in buf.iter_mut() {
                *b = self.inp.pop_front().unwrap();
            }
            Ok(buf.len())
        }
    }
    impl AsyncWriteExt for crate::net::TcpStream {
        async fn write_all(&mut self, buf: &[u8]) -> io::Result<()> {
            crate::yield_point("socket.write").await;
            self.out.lock().unwrap().extend_from_slice(buf);
            Ok(())
        }
    }
}
