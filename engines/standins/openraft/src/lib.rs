//! Stand-in for the parts of openraft 0.10 that octopii/src/openraft/{storage,types}.rs name.
use serde::{Serialize, Deserialize};
use std::fmt::Debug; use std::io; use std::marker::PhantomData;
pub trait OptionalSend: Send {} impl<T: Send + ?Sized> OptionalSend for T {}
pub trait OptionalSync: Sync {} impl<T: Sync + ?Sized> OptionalSync for T {}
pub trait RaftTypeConfig: Sized + Send + Sync + Debug + Clone + Copy + Default + Eq + PartialEq + Ord + PartialOrd + 'static {
    type D: Clone + Debug + Send + Sync + Serialize + for<'a> Deserialize<'a> + 'static;
    type R: Clone + Debug + Send + Sync + 'static;
    type NodeId: Copy + Debug + Ord + Send + Sync + Serialize + for<'a> Deserialize<'a> + Default + 'static;
    type SnapshotData: Send + 'static;
}
#[macro_export]
macro_rules! declare_raft_types {
    ($vis:vis $name:ident : D = $d:ty, R = $r:ty, NodeId = $n:ty $(,)?) => {
        #[derive(Debug, Clone, Copy, Default, Eq, PartialEq, Ord, PartialOrd)]
        $vis struct $name {}
        impl $crate::RaftTypeConfig for $name { type D = $d; type R = $r; type NodeId = $n; type SnapshotData = std::io::Cursor<Vec<u8>>; }
    };
}
pub mod alias { pub type SnapshotDataOf<C> = <C as crate::RaftTypeConfig>::SnapshotData; }
#[derive(Debug, Clone, Copy, PartialEq, Eq, PartialOrd, Ord, Serialize, Deserialize, Default)]
#[serde(bound = "")]
pub struct LeaderId<C: RaftTypeConfig> { pub term: u64, pub node_id: C::NodeId }
#[derive(Debug, Clone, Copy, PartialEq, Eq, PartialOrd, Ord, Serialize, Deserialize)]
#[serde(bound = "")]
pub struct LogId<C: RaftTypeConfig> { pub leader_id: LeaderId<C>, pub index: u64 }
#[derive(Debug, Clone, PartialEq, Eq, Serialize, Deserialize, Default)]
pub struct Membership { pub configs: Vec<std::collections::BTreeSet<u64>> }
#[derive(Debug, Clone, PartialEq, Eq, Serialize, Deserialize)]
#[serde(bound = "")]
pub enum EntryPayload<C: RaftTypeConfig> { Blank, Normal(C::D), Membership(Membership) }
#[derive(Debug, Clone, Serialize, Deserialize)]
#[serde(bound = "")]
pub struct Entry<C: RaftTypeConfig> { pub log_id: LogId<C>, pub payload: EntryPayload<C> }
#[derive(Debug, Clone, PartialEq, Eq, Serialize, Deserialize)]
#[serde(bound = "")]
pub struct Vote<C: RaftTypeConfig> { pub leader_id: LeaderId<C>, pub committed: bool }
#[derive(Debug, Clone, PartialEq, Eq, Default)]
pub struct StoredMembership<C: RaftTypeConfig> { pub log_id: Option<LogId<C>>, pub membership: Membership }
impl<C: RaftTypeConfig> StoredMembership<C> { pub fn new(log_id: Option<LogId<C>>, membership: Membership) -> Self { Self { log_id, membership } } }
#[derive(Debug)] pub struct StorageError<C>(PhantomData<C>);
pub mod storage {
    use super::*;
    #[derive(Debug, Clone, PartialEq, Eq)] pub struct LogState<C: RaftTypeConfig> { pub last_purged_log_id: Option<LogId<C>>, pub last_log_id: Option<LogId<C>> }
    #[derive(Debug, Clone, PartialEq, Eq)] pub struct SnapshotMeta<C: RaftTypeConfig> { pub last_log_id: Option<LogId<C>>, pub last_membership: StoredMembership<C>, pub snapshot_id: String }
    pub struct Snapshot<C: RaftTypeConfig> { pub meta: SnapshotMeta<C>, pub snapshot: C::SnapshotData }
    pub struct IOFlushed<C: RaftTypeConfig> { pub done: std::sync::Arc<std::sync::Mutex<Option<Result<(), io::Error>>>>, _c: PhantomData<C> }
    impl<C: RaftTypeConfig> IOFlushed<C> { pub fn new() -> Self { Self { done: Default::default(), _c: PhantomData } } pub async fn io_completed(self, r: Result<(), io::Error>) { *self.done.lock().unwrap() = Some(r); } }
    pub struct Responder<C: RaftTypeConfig>(pub std::sync::Arc<std::sync::Mutex<Vec<C::R>>>);
    impl<C: RaftTypeConfig> Responder<C> { pub fn send(self, r: C::R) { self.0.lock().unwrap().push(r); } }
    pub type EntryResponder<C> = (Entry<C>, Option<Responder<C>>);
    pub trait RaftLogReader<C: RaftTypeConfig>: OptionalSend + OptionalSync + 'static {
        async fn try_get_log_entries<RB: std::ops::RangeBounds<u64> + Clone + Debug + OptionalSend>(&mut self, range: RB) -> Result<Vec<Entry<C>>, io::Error>;
        async fn read_vote(&mut self) -> Result<Option<Vote<C>>, io::Error>;
    }
    pub trait RaftLogStorage<C: RaftTypeConfig>: OptionalSend + OptionalSync + 'static {
        type LogReader: RaftLogReader<C>;
        async fn get_log_state(&mut self) -> Result<LogState<C>, io::Error>;
        async fn get_log_reader(&mut self) -> Self::LogReader;
        async fn save_vote(&mut self, vote: &Vote<C>) -> Result<(), io::Error>;
        async fn save_committed(&mut self, committed: Option<LogId<C>>) -> Result<(), io::Error>;
        async fn read_committed(&mut self) -> Result<Option<LogId<C>>, io::Error>;
        async fn append<I>(&mut self, entries: I, callback: IOFlushed<C>) -> Result<(), io::Error> where I: IntoIterator<Item = Entry<C>> + OptionalSend, I::IntoIter: OptionalSend;
        async fn truncate(&mut self, log_id: LogId<C>) -> Result<(), io::Error>;
        async fn purge(&mut self, log_id: LogId<C>) -> Result<(), io::Error>;
    }
    pub trait RaftSnapshotBuilder<C: RaftTypeConfig>: OptionalSend + OptionalSync + 'static { async fn build_snapshot(&mut self) -> Result<Snapshot<C>, io::Error>; }
    pub trait RaftStateMachine<C: RaftTypeConfig>: OptionalSend + OptionalSync + 'static {
        type SnapshotBuilder: RaftSnapshotBuilder<C>;
        async fn applied_state(&mut self) -> Result<(Option<LogId<C>>, StoredMembership<C>), io::Error>;
        async fn apply<Strm>(&mut self, entries: Strm) -> Result<(), io::Error> where Strm: futures::Stream<Item = Result<EntryResponder<C>, io::Error>> + Unpin + OptionalSend;
        async fn get_snapshot_builder(&mut self) -> Self::SnapshotBuilder;
        async fn begin_receiving_snapshot(&mut self) -> Result<C::SnapshotData, io::Error>;
        async fn install_snapshot(&mut self, meta: &SnapshotMeta<C>, snapshot: C::SnapshotData) -> Result<(), io::Error>;
        async fn get_current_snapshot(&mut self) -> Result<Option<Snapshot<C>>, io::Error>;
    }
}
pub use storage::RaftLogReader;
