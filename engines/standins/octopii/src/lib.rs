//! Stand-in for the octopii API that distributed-walrus/src/{metadata,controller}.rs use.
use bytes::Bytes; use std::net::SocketAddr; use std::time::Duration; use std::collections::BTreeSet;
pub trait StateMachineTrait: Send + Sync { fn apply(&self, command: &[u8]) -> std::result::Result<Bytes, String>; fn snapshot(&self) -> Vec<u8>; fn restore(&self, data: &[u8]) -> std::result::Result<(), String>; fn compact(&self) -> std::result::Result<(), String> { Ok(()) } }
#[derive(Debug)] pub struct OctopiiError(pub String); impl std::fmt::Display for OctopiiError{fn fmt(&self,f:&mut std::fmt::Formatter<'_>)->std::fmt::Result{write!(f,"{}",self.0)}} impl std::error::Error for OctopiiError{}
pub type Result<T> = std::result::Result<T, OctopiiError>;
pub mod rpc {
    use super::*; use serde::{Serialize, Deserialize};
    #[derive(Debug, Clone, Serialize, Deserialize)] pub enum RequestPayload { RaftMessage { message: Bytes }, OpenRaft { kind: String, data: Bytes }, Custom { operation: String, data: Bytes } }
    #[derive(Debug, Clone, Serialize, Deserialize)] pub enum ResponsePayload { AppendEntriesResponse { term: u64, success: bool }, RequestVoteResponse { term: u64, vote_granted: bool }, SnapshotResponse { term: u64, success: bool }, OpenRaft { kind: String, data: Bytes }, CustomResponse { success: bool, data: Bytes }, Error { message: String } }
    #[derive(Debug, Clone)] pub struct RpcRequest { pub id: u64, pub payload: RequestPayload }
    #[derive(Debug, Clone)] pub struct RpcResponse { pub id: u64, pub payload: ResponsePayload }
    pub struct RpcHandler;
    impl RpcHandler { pub async fn request(&self, _to: SocketAddr, _p: RequestPayload, _t: Duration) -> crate::Result<RpcResponse> { todo!() } }
}
#[derive(Debug, Clone, serde::Serialize)] pub struct Membership { pub configs: Vec<BTreeSet<u64>> }
impl Membership { pub fn get_joint_config(&self) -> &Vec<BTreeSet<u64>> { &self.configs } }
#[derive(Debug, Clone, serde::Serialize)] pub struct StoredMembership { pub m: Membership }
impl StoredMembership { pub fn membership(&self) -> &Membership { &self.m } }
#[derive(Debug, Clone, serde::Serialize)] pub struct RaftMetrics { pub current_leader: Option<u64>, pub state: String, pub last_log_index: Option<u64>, pub membership_config: StoredMembership }
pub struct OctopiiNode;
impl OctopiiNode {
    pub async fn peer_addr_for(&self, _id: u64) -> Option<SocketAddr> { todo!() }
    pub async fn update_peer_addr(&self, _id: u64, _a: SocketAddr) { todo!() }
    pub async fn is_leader(&self) -> bool { todo!() }
    pub async fn propose(&self, _c: Vec<u8>) -> Result<Bytes> { todo!() }
    pub fn raft_metrics(&self) -> RaftMetrics { todo!() }
    pub fn rpc_handler(&self) -> std::sync::Arc<rpc::RpcHandler> { todo!() }
    pub async fn add_learner(&self, _id: u64, _a: SocketAddr) -> Result<()> { todo!() }
    pub async fn is_learner_caught_up(&self, _id: u64) -> Result<bool> { todo!() }
    pub async fn promote_learner(&self, _id: u64) -> Result<()> { todo!() }
    pub fn id(&self) -> u64 { todo!() }
}
