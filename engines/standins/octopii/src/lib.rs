//! Stand-in for the octopii API that distributed-walrus/src/{metadata,controller,monitor}.rs
//! use. Consensus is modelled as one totally ordered command log (`SimRaft`) shared by the
//! nodes of a simulated cluster: a proposal on the leader appends to the log and is applied
//! to the leader's state machine at once; application on every follower is a separate event
//! that the harness fires (in log order). RPCs are delivered to the target node's registered
//! handler, with a scheduling point before and after. The real octopii (openraft, QUIC)
//! cannot be compiled offline; this file is part of the trusted base of C22-C24.
#![allow(warnings)]
use bytes::Bytes;
use std::collections::{BTreeMap, BTreeSet};
use std::future::Future;
use std::net::SocketAddr;
use std::pin::Pin;
use std::sync::{Arc, Mutex};
use std::time::Duration;

pub trait StateMachineTrait: Send + Sync {
    fn apply(&self, command: &[u8]) -> std::result::Result<Bytes, String>;
    fn snapshot(&self) -> Vec<u8>;
    fn restore(&self, data: &[u8]) -> std::result::Result<(), String>;
    fn compact(&self) -> std::result::Result<(), String> {
        Ok(())
    }
}

#[derive(Debug)]
pub struct OctopiiError(pub String);
impl std::fmt::Display for OctopiiError {
    fn fmt(&self, f: &mut std::fmt::Formatter<'_>) -> std::fmt::Result {
        write!(f, "{}", self.0)
    }
}
impl std::error::Error for OctopiiError {}
pub type Result<T> = std::result::Result<T, OctopiiError>;

pub type BoxFuture<T> = Pin<Box<dyn Future<Output = T>>>;
pub type Handler = Arc<dyn Fn(rpc::RpcRequest) -> BoxFuture<rpc::ResponsePayload>>;

pub mod rpc {
    use super::*;
    use serde::{Deserialize, Serialize};
    #[derive(Debug, Clone, Serialize, Deserialize)]
    pub enum RequestPayload {
        RaftMessage { message: Bytes },
        OpenRaft { kind: String, data: Bytes },
        Custom { operation: String, data: Bytes },
    }
    #[derive(Debug, Clone, Serialize, Deserialize)]
    pub enum ResponsePayload {
        AppendEntriesResponse { term: u64, success: bool },
        RequestVoteResponse { term: u64, vote_granted: bool },
        SnapshotResponse { term: u64, success: bool },
        OpenRaft { kind: String, data: Bytes },
        CustomResponse { success: bool, data: Bytes },
        Error { message: String },
    }
    #[derive(Debug, Clone)]
    pub struct RpcRequest {
        pub id: u64,
        pub payload: RequestPayload,
    }
    #[derive(Debug, Clone)]
    pub struct RpcResponse {
        pub id: u64,
        pub payload: ResponsePayload,
    }
    pub struct RpcHandler {
        pub(crate) raft: Arc<SimRaft>,
    }
    impl RpcHandler {
        pub async fn request(&self, to: SocketAddr, p: RequestPayload, _t: Duration) -> crate::Result<RpcResponse> {
            tokio::yield_point("rpc.send").await;
            let h = {
                let g = self.raft.inner.lock().unwrap();
                g.nodes.values().find(|n| n.addr == to).and_then(|n| n.handler.clone())
            };
            let Some(h) = h else { return Err(OctopiiError(format!("no route to {}", to))) };
            let payload = h(RpcRequest { id: 0, payload: p }).await;
            tokio::yield_point("rpc.recv").await;
            Ok(RpcResponse { id: 0, payload })
        }
    }
}

pub struct NodeSlot {
    pub sm: Arc<dyn StateMachineTrait>,
    pub applied: usize,
    pub addr: SocketAddr,
    pub handler: Option<Handler>,
}
// the simulated cluster lives on one thread
unsafe impl Send for NodeSlot {}
unsafe impl Sync for NodeSlot {}

pub struct SimInner {
    pub log: Vec<Vec<u8>>,
    pub leader: u64,
    pub nodes: BTreeMap<u64, NodeSlot>,
    /// (node, log index) of every application, in the order they happened
    pub apply_trace: Vec<(u64, usize)>,
}

pub struct SimRaft {
    pub inner: Mutex<SimInner>,
}

impl SimRaft {
    pub fn new(leader: u64) -> Arc<Self> {
        Arc::new(SimRaft { inner: Mutex::new(SimInner { log: vec![], leader, nodes: BTreeMap::new(), apply_trace: vec![] }) })
    }
    pub fn add_node(self: &Arc<Self>, id: u64, addr: SocketAddr, sm: Arc<dyn StateMachineTrait>) -> Arc<OctopiiNode> {
        self.inner.lock().unwrap().nodes.insert(id, NodeSlot { sm, applied: 0, addr, handler: None });
        Arc::new(OctopiiNode { id, raft: self.clone() })
    }
    pub fn set_handler(&self, id: u64, h: Handler) {
        if let Some(n) = self.inner.lock().unwrap().nodes.get_mut(&id) {
            n.handler = Some(h);
        }
    }
    /// nodes that have not applied the whole log yet
    pub fn lagging(&self) -> Vec<u64> {
        let g = self.inner.lock().unwrap();
        g.nodes.iter().filter(|(_, n)| n.applied < g.log.len()).map(|(i, _)| *i).collect()
    }
    /// apply the next log entry on `id` (no-op when it is up to date)
    pub fn apply_next(&self, id: u64) {
        let (cmd, sm, idx) = {
            let g = self.inner.lock().unwrap();
            let Some(n) = g.nodes.get(&id) else { return };
            if n.applied >= g.log.len() {
                return;
            }
            (g.log[n.applied].clone(), n.sm.clone(), n.applied)
        };
        let _ = sm.apply(&cmd);
        let mut g = self.inner.lock().unwrap();
        if let Some(n) = g.nodes.get_mut(&id) {
            n.applied = idx + 1;
        }
        g.apply_trace.push((id, idx));
    }
    pub fn apply_all(&self) {
        loop {
            let l = self.lagging();
            if l.is_empty() {
                break;
            }
            for id in l {
                self.apply_next(id);
            }
        }
    }
}

#[derive(Debug, Clone, serde::Serialize)]
pub struct Membership {
    pub configs: Vec<BTreeSet<u64>>,
}
impl Membership {
    pub fn get_joint_config(&self) -> &Vec<BTreeSet<u64>> {
        &self.configs
    }
}
#[derive(Debug, Clone, serde::Serialize)]
pub struct StoredMembership {
    pub m: Membership,
}
impl StoredMembership {
    pub fn membership(&self) -> &Membership {
        &self.m
    }
}
#[derive(Debug, Clone, serde::Serialize)]
pub struct RaftMetrics {
    pub current_leader: Option<u64>,
    pub state: String,
    pub last_log_index: Option<u64>,
    pub membership_config: StoredMembership,
}

pub struct OctopiiNode {
    id: u64,
    raft: Arc<SimRaft>,
}
unsafe impl Send for OctopiiNode {}
unsafe impl Sync for OctopiiNode {}

impl OctopiiNode {
    pub async fn peer_addr_for(&self, id: u64) -> Option<SocketAddr> {
        self.raft.inner.lock().unwrap().nodes.get(&id).map(|n| n.addr)
    }
    pub async fn update_peer_addr(&self, id: u64, a: SocketAddr) {
        if let Some(n) = self.raft.inner.lock().unwrap().nodes.get_mut(&id) {
            n.addr = a;
        }
    }
    pub async fn is_leader(&self) -> bool {
        self.raft.inner.lock().unwrap().leader == self.id
    }
    /// Linearizable proposal: appended to the single log and applied on the leader at once
    /// (the leader first catches up with the log, in order).
    pub async fn propose(&self, c: Vec<u8>) -> Result<Bytes> {
        tokio::yield_point("raft.propose").await;
        if !self.is_leader().await {
            return Err(OctopiiError("not the leader".into()));
        }
        let idx = {
            let mut g = self.raft.inner.lock().unwrap();
            g.log.push(c);
            g.log.len() - 1
        };
        let mut result: std::result::Result<Bytes, String> = Err("not applied".into());
        loop {
            let (cmd, sm, at) = {
                let g = self.raft.inner.lock().unwrap();
                let n = g.nodes.get(&self.id).expect("leader slot");
                if n.applied > idx {
                    break;
                }
                (g.log[n.applied].clone(), n.sm.clone(), n.applied)
            };
            let r = sm.apply(&cmd);
            let mut g = self.raft.inner.lock().unwrap();
            g.nodes.get_mut(&self.id).unwrap().applied = at + 1;
            let id = self.id;
            g.apply_trace.push((id, at));
            if at == idx {
                result = r;
            }
        }
        tokio::yield_point("raft.proposed").await;
        result.map_err(OctopiiError)
    }
    pub fn raft_metrics(&self) -> RaftMetrics {
        let g = self.raft.inner.lock().unwrap();
        RaftMetrics {
            current_leader: Some(g.leader),
            state: if g.leader == self.id { "Leader".into() } else { "Follower".into() },
            last_log_index: if g.log.is_empty() { None } else { Some(g.log.len() as u64) },
            membership_config: StoredMembership { m: Membership { configs: vec![g.nodes.keys().copied().collect()] } },
        }
    }
    pub fn rpc_handler(&self) -> Arc<rpc::RpcHandler> {
        Arc::new(rpc::RpcHandler { raft: self.raft.clone() })
    }
    pub async fn add_learner(&self, _id: u64, _a: SocketAddr) -> Result<()> {
        Ok(())
    }
    pub async fn is_learner_caught_up(&self, _id: u64) -> Result<bool> {
        Ok(true)
    }
    pub async fn promote_learner(&self, _id: u64) -> Result<()> {
        Ok(())
    }
    pub fn id(&self) -> u64 {
        self.id
    }
}
