#![allow(warnings)]
//! dwmc: checks for the distributed layer. The repository's source files are compiled
//! unmodified (by #[path]) against the stand-in crates under /verif/engines/standins.
#[path = "/repo/distributed-walrus/src/bucket.rs"]
pub mod bucket;
#[path = "/repo/distributed-walrus/src/client.rs"]
pub mod client;
#[path = "/repo/distributed-walrus/src/config.rs"]
pub mod config;
#[path = "/repo/distributed-walrus/src/controller/mod.rs"]
pub mod controller;
#[path = "/repo/distributed-walrus/src/metadata.rs"]
pub mod metadata;
#[path = "/repo/distributed-walrus/src/monitor.rs"]
pub mod monitor;
#[path = "/repo/distributed-walrus/src/rpc.rs"]
pub mod rpc;

mod cluster;
mod evidence;
mod flow;
mod proto;
mod pure;

pub fn known_open(id: &str, prop: &str) -> Option<String> {
    let text = std::fs::read_to_string("/verif/known_findings.json").ok()?;
    let v: serde_json::Value = serde_json::from_str(&text).ok()?;
    for f in v["findings"].as_array()? {
        if f["id"] == id && f["status"] == "open" && f["property"].as_array().map(|a| a.iter().any(|p| p == prop)).unwrap_or(false) {
            return Some(f["title"].as_str().unwrap_or("").to_string());
        }
    }
    None
}

fn main() {
    let args: Vec<String> = std::env::args().collect();
    let prop = args.get(2).cloned().unwrap_or_default();
    let mut tier = std::env::var("VERIF_TIER").unwrap_or_else(|_| "quick".into());
    if let Some(i) = args.iter().position(|a| a == "--tier") {
        if let Some(t) = args.get(i + 1) {
            tier = t.clone();
        }
    }
    if args.get(1).map(|s| s.as_str()) == Some("replay") {
        std::process::exit(flow::replay(&prop));
    }
    if args.get(1).map(|s| s.as_str()) != Some("check") {
        eprintln!("usage: dwmc check <C18|C20|C25|...> [--tier quick|thorough]");
        std::process::exit(2);
    }
    let code = match prop.as_str() {
        "C18" => pure::check_c18(&tier),
        "C20a" => pure::check_c20a(&tier),
        "C25" => pure::check_c25(&tier),
        "C24" => proto::check_c24(&tier),
        "C22" => flow::check("C22", &tier),
        "C23" => flow::check("C23", &tier),
        _ => {
            eprintln!("dwmc: unknown property {}", prop);
            2
        }
    };
    std::process::exit(code);
}
