//! C22 / C23: end-to-end PUT/GET on a simulated cluster, all task interleavings within a
//! deviation bound. One exploration serves both properties: C22's oracle is evaluated at the
//! end of every schedule, C23's monitor after every scheduling step.
use crate::cluster::{self, frame, parse_responses, Choice, Cluster};
use crate::controller::wal_key;
use crate::evidence::{self, Ev};
use serde::{Deserialize, Serialize};
use serde_json::json;
use std::collections::{HashMap, HashSet};
use std::time::Instant;

#[derive(Clone, Debug, Serialize, Deserialize)]
pub struct Scenario {
    pub name: String,
    pub nodes: usize,
    pub threshold: u64,
    /// (node index, payloads) per producer connection
    pub producers: Vec<(usize, Vec<String>)>,
    /// (node index, number of GETs) per consumer connection
    pub consumers: Vec<(usize, usize)>,
    pub ticks: bool,
    /// default policy for follower applications in the explored part (see cluster::EAGER_APPLY)
    #[serde(default)]
    pub eager: bool,
}

#[derive(Clone, Debug, Serialize, Deserialize)]
pub struct Item {
    pub sc: Scenario,
    pub prefix: Vec<usize>,
}

#[derive(Clone, Debug, Serialize, Deserialize, Default)]
pub struct RunOut {
    /// per decision: (number of options, chosen, last_ready, description)
    pub decisions: Vec<(usize, usize, bool, String)>,
    pub acked: Vec<Vec<String>>,
    pub put_responses: Vec<Vec<String>>,
    pub gets: Vec<Vec<String>>,
    pub final_gets: Vec<String>,
    pub c23: Option<String>,
    /// per decision, per option: is it the application of a committed command on a follower
    #[serde(default)]
    pub apply_opts: Vec<Vec<bool>>,
    pub quiet: bool,
    pub stuck_epilogue: bool,
    /// a node appended to a segment that the committed metadata (the Raft leader's applied
    /// state) had already sealed while the node's own applied state still showed it open
    #[serde(default)]
    pub stale_owner_write: bool,
    /// (segment, entries written on its owner, sealed count) for segments holding more
    /// entries than the count their sealing recorded
    #[serde(default)]
    pub overfull: Vec<(u64, u64, u64)>,
}

const TOPIC: &str = "t";

fn sizes(cl: &Cluster) -> Vec<HashMap<u64, u64>> {
    cl.nodes.iter().map(|n| (1..=6u64).map(|s| (s, n.bucket.get_topic_size_blocking(&wal_key(TOPIC, s)))).collect()).collect()
}
fn views(cl: &Cluster) -> Vec<Option<(u64, u64)>> {
    cl.metas.iter().map(|m| m.get_topic_state(TOPIC).map(|t| (t.current_segment, t.leader_node))).collect()
}

pub fn run_item(dir: &std::path::Path, it: &Item) -> Result<String, String> {
    let sc = &it.sc;
    std::env::set_var("WALRUS_MAX_SEGMENT_ENTRIES", sc.threshold.to_string());
    let cl = cluster::build(dir, sc.nodes, true);
    // set-up: register the topic through node 1, apply everywhere, sync leases
    let reg = tokio::net::script_connection(&cluster::bind_of(0), frame(format!("REGISTER {}", TOPIC).as_bytes()));
    let (_d, q0) = cluster::run(&cl, &[], false, 0, 100_000, |_, _| {});
    cl.raft.apply_all();
    let nodes = cl.nodes.clone();
    tokio::sim::spawn_named("setup-leases", async move {
        for n in nodes.iter() {
            n.update_leases().await;
        }
    });
    let (_d, q1) = cluster::run(&cl, &[], false, 0, 100_000, |_, _| {});
    if !q0 || !q1 || parse_responses(&reg.lock().unwrap()) != vec!["OK".to_string()] {
        return Err(format!("set-up failed: {:?}", parse_responses(&reg.lock().unwrap())));
    }
    // client connections
    let mut put_outs = vec![];
    for (node, payloads) in sc.producers.iter() {
        let mut input = vec![];
        for p in payloads {
            input.extend_from_slice(&frame(format!("PUT {} {}", TOPIC, p).as_bytes()));
        }
        put_outs.push(tokio::net::script_connection(&cluster::bind_of(*node), input));
        tokio::sim::wake_blocked(&format!("accept:{}", cluster::bind_of(*node)));
    }
    let mut get_outs = vec![];
    for (node, k) in sc.consumers.iter() {
        let mut input = vec![];
        for _ in 0..*k {
            input.extend_from_slice(&frame(format!("GET {}", TOPIC).as_bytes()));
        }
        get_outs.push(tokio::net::script_connection(&cluster::bind_of(*node), input));
        tokio::sim::wake_blocked(&format!("accept:{}", cluster::bind_of(*node)));
    }
    // explored part, with the C23 monitor after every step
    let mut c23: Option<String> = None;
    let mut pre_sizes = sizes(&cl);
    let mut pre_views = views(&cl);
    let trace = std::env::var("DWMC_TRACE").is_ok();
    let mut peak: HashMap<u64, u64> = HashMap::new();
    let mut stale_owner_write = false;
    let mut step_no = 0usize;
    cluster::EAGER_APPLY.store(sc.eager, std::sync::atomic::Ordering::SeqCst);
    let (ds, quiet) = cluster::run(&cl, &it.prefix, sc.ticks, 1, 20_000, |cl, ch| {
        let now = sizes(cl);
        for (ni, (a, b)) in pre_sizes.iter().zip(now.iter()).enumerate() {
            for seg in 1..=6u64 {
                if b[&seg] > a[&seg] {
                    let p = peak.entry(seg).or_insert(0);
                    *p = (*p).max(b[&seg]);
                    let committed_cur = pre_views[0].map(|v| v.0).unwrap_or(0);
                    if committed_cur > seg && pre_views[ni].map(|v| v.0) == Some(seg) {
                        stale_owner_write = true;
                    }
                }
            }
        }
        if trace {
            step_no += 1;
            let sz: Vec<Vec<(u64, u64)>> = now.iter().map(|m| { let mut v: Vec<(u64, u64)> = m.iter().filter(|(_, n)| **n > 0).map(|(a, b)| (*a, *b)).collect(); v.sort(); v }).collect();
            let (log_len, applied) = { let g = cl.raft.inner.lock().unwrap(); (g.log.len(), g.nodes.values().map(|n| n.applied).collect::<Vec<_>>()) };
            println!("  step {:>3} {:<40} applied (segment, leader) per node {:?}  entries per node {:?}  raft log {} / applied {:?}", step_no, format!("{:?}", ch), views(cl), sz, log_len, applied);
        }
        if c23.is_none() {
            for (ni, (a, b)) in pre_sizes.iter().zip(now.iter()).enumerate() {
                for seg in 1..=6u64 {
                    if b[&seg] > a[&seg] {
                        let me = (ni + 1) as u64;
                        match pre_views[ni] {
                            Some((cur, leader)) if cur == seg && leader == me => {}
                            other => {
                                c23 = Some(format!(
                                    "node {} wrote into segment {} of topic {} during step {:?} although its applied metadata said (current segment, leader) = {:?}",
                                    me, seg, TOPIC, ch, other
                                ));
                            }
                        }
                    }
                }
            }
        }
        pre_sizes = now;
        pre_views = views(cl);
    });
    cluster::EAGER_APPLY.store(false, std::sync::atomic::Ordering::SeqCst);
    // epilogue: everything applied, one lease sync per node, then drain with GETs on node 1
    cl.raft.apply_all();
    let nodes = cl.nodes.clone();
    tokio::sim::spawn_named("epilogue-leases", async move {
        for n in nodes.iter() {
            n.update_leases().await;
        }
    });
    let (_d, q2) = cluster::run(&cl, &[], false, 0, 100_000, |_, _| {});
    cl.raft.apply_all();
    let total: usize = sc.producers.iter().map(|p| p.1.len()).sum();
    let mut input = vec![];
    for _ in 0..(total + 3) {
        input.extend_from_slice(&frame(format!("GET {}", TOPIC).as_bytes()));
    }
    let fin = tokio::net::script_connection(&cluster::bind_of(0), input);
    tokio::sim::wake_blocked(&format!("accept:{}", cluster::bind_of(0)));
    let (_d, q3) = cluster::run(&cl, &[], false, 0, 200_000, |cl, _| {
        // follower applications are not held back any more
        cl.raft.apply_all();
    });
    let mut out = RunOut { quiet, stuck_epilogue: !(q2 && q3), c23, stale_owner_write, ..Default::default() };
    let entry_bytes = 256 + sc.producers.first().and_then(|p| p.1.first()).map(|s| s.len() as u64).unwrap_or(2);
    for (seg, bytes) in peak.iter() {
        if let Some(sealed) = cl.metas[0].sealed_count(TOPIC, *seg) {
            if bytes / entry_bytes > sealed {
                out.overfull.push((*seg, bytes / entry_bytes, sealed));
            }
        }
    }
    out.overfull.sort();
    out.decisions = ds.iter().map(|d| (d.options.len(), d.chosen, d.last_ready, d.desc.clone())).collect();
    out.apply_opts = ds.iter().map(|d| d.options.iter().map(|o| matches!(o, Choice::Apply(_))).collect()).collect();
    for (pi, (_n, payloads)) in sc.producers.iter().enumerate() {
        let resp = parse_responses(&put_outs[pi].lock().unwrap());
        let mut acked = vec![];
        for (i, p) in payloads.iter().enumerate() {
            if resp.get(i).map(|r| r == "OK").unwrap_or(false) {
                acked.push(p.clone());
            }
        }
        out.acked.push(acked);
        out.put_responses.push(resp);
    }
    for g in get_outs.iter() {
        out.gets.push(parse_responses(&g.lock().unwrap()));
    }
    out.final_gets = parse_responses(&fin.lock().unwrap());
    drop(cl);
    Ok(serde_json::to_string(&out).unwrap())
}

/// C22 oracle on one finished schedule. None = fine.
fn c22_oracle(sc: &Scenario, o: &RunOut) -> Option<(String, String)> {
    if !o.quiet || o.stuck_epilogue {
        return Some(("stuck".into(), "the simulated cluster did not come to rest within the step limit".into()));
    }
    // delivered payloads in delivery order: explored consumers (each sequential), then the drain
    let mut delivered: Vec<String> = vec![];
    for g in o.gets.iter().chain(std::iter::once(&o.final_gets)) {
        for r in g {
            if let Some(p) = r.strip_prefix("OK ") {
                delivered.push(p.to_string());
            } else if r != "EMPTY" {
                return Some(("get.error".into(), format!("a GET was answered {:?}", r)));
            }
        }
    }
    let acked: Vec<String> = o.acked.iter().flatten().cloned().collect();
    let all_put: HashSet<&String> = sc.producers.iter().flat_map(|p| p.1.iter()).collect();
    for d in delivered.iter() {
        if !all_put.contains(d) {
            return Some(("foreign".into(), format!("GET returned {:?}, which no client PUT", d)));
        }
    }
    for a in acked.iter() {
        let n = delivered.iter().filter(|d| *d == a).count();
        if n == 0 {
            return Some(("lost".into(), format!("PUT {:?} was answered OK but no GET ever returned it (delivered {:?}; the drain ended with {:?})", a, delivered, o.final_gets.iter().rev().take(3).collect::<Vec<_>>())));
        }
        if n > 1 {
            return Some(("duplicate".into(), format!("PUT {:?} was returned by {} GETs (delivered {:?})", a, n, delivered)));
        }
    }
    // the drain must end with EMPTY answers only after everything was delivered (checked above),
    // and a sequential producer's payloads come back in acknowledgement order
    for (pi, ack) in o.acked.iter().enumerate() {
        // order within one consumer sequence and the drain; with several explored consumers the
        // global order is only defined per consumer, so check each GET sequence separately
        for g in o.gets.iter().chain(std::iter::once(&o.final_gets)) {
            let seq: Vec<usize> = g.iter().filter_map(|r| r.strip_prefix("OK ")).filter_map(|p| ack.iter().position(|a| a == p)).collect();
            if seq.windows(2).any(|w| w[0] > w[1]) {
                return Some(("order".into(), format!("payloads of producer {} came back out of acknowledgement order: {:?}", pi, g)));
            }
        }
        if o.gets.len() <= 1 {
            let seq: Vec<usize> = delivered.iter().filter_map(|p| ack.iter().position(|a| a == p)).collect();
            if seq.windows(2).any(|w| w[0] > w[1]) {
                return Some(("order".into(), format!("payloads of producer {} came back out of acknowledgement order: {:?}", pi, delivered)));
            }
        }
    }
    None
}

pub fn scenarios(thorough: bool) -> Vec<Scenario> {
    let mut v = vec![];
    let p = |s: &str| s.to_string();
    for nodes in if thorough { vec![1usize, 2, 3] } else { vec![1usize, 2] } {
        for threshold in if thorough { vec![1u64, 2, 3, 4] } else { vec![1u64, 2] } {
            let last = nodes - 1;
            v.push(Scenario { name: format!("n{}/th{}/P3+G", nodes, threshold), nodes, threshold, producers: vec![(0, vec![p("a1"), p("a2"), p("a3")])], consumers: vec![(last, 2)], ticks: false, eager: false });
            if nodes > 1 {
                // a sequential producer attached to a node that does not own the first segment:
                // every PUT is forwarded on the strength of that node's (possibly lagging) metadata
                v.push(Scenario { name: format!("n{}/th{}/P3@last+G", nodes, threshold), nodes, threshold, producers: vec![(last, vec![p("a1"), p("a2"), p("a3")])], consumers: vec![(0, 2)], ticks: false, eager: false });
            }
            v.push(Scenario { name: format!("n{}/th{}/P2+P1", nodes, threshold), nodes, threshold, producers: vec![(0, vec![p("a1"), p("a2")]), (last, vec![p("b1")])], consumers: vec![], ticks: false, eager: false });
            v.push(Scenario { name: format!("n{}/th{}/P2+P2+G/ticks", nodes, threshold), nodes, threshold, producers: vec![(0, vec![p("a1"), p("a2")]), (last, vec![p("b1"), p("b2")])], consumers: vec![(0, 2)], ticks: true, eager: false });
        }
    }
    // the same forwarded-producer programs with eager follower application as the default
    // policy (every follower up to date unless the explorer delays it)
    {
        let p = |s: &str| s.to_string();
        for nodes in if thorough { vec![2usize, 3] } else { vec![2usize] } {
            for threshold in if thorough { vec![1u64, 2] } else { vec![1u64] } {
                let last = nodes - 1;
                v.push(Scenario { name: format!("n{}/th{}/P3@last+G/eager", nodes, threshold), nodes, threshold, producers: vec![(last, vec![p("a1"), p("a2"), p("a3")])], consumers: vec![(0, 2)], ticks: false, eager: true });
                v.push(Scenario { name: format!("n{}/th{}/P3+G/eager", nodes, threshold), nodes, threshold, producers: vec![(0, vec![p("a1"), p("a2"), p("a3")])], consumers: vec![(last, 2)], ticks: false, eager: true });
            }
        }
    }
    // a single sequential producer with the monitor / lease ticks as events (the monitor
    // proposes rollovers of its own, with the count it read before its proposal applies)
    {
        let p = |s: &str| s.to_string();
        for nodes in if thorough { vec![1usize, 2] } else { vec![1usize] } {
            for threshold in if thorough { vec![1u64, 2] } else { vec![1u64] } {
                v.push(Scenario { name: format!("n{}/th{}/P3+G/ticks", nodes, threshold), nodes, threshold, producers: vec![(0, vec![p("a1"), p("a2"), p("a3")])], consumers: vec![(nodes - 1, 2)], ticks: true, eager: false });
            }
        }
    }
    if !thorough {
        // the quick tier's only three-node scenario: the producer's node, the segment owner
        // and the Raft leader are three different nodes, so a stale key can be forwarded to an
        // owner that has already applied the sealing
        let p = |s: &str| s.to_string();
        v.insert(0, Scenario { name: "n3/th1/P3@last+G".into(), nodes: 3, threshold: 1, producers: vec![(2, vec![p("a1"), p("a2"), p("a3")])], consumers: vec![(0, 2)], ticks: false, eager: false });
    }
    v
}

/// `dwmc replay <file>`: re-executes one recorded schedule with a step-by-step trace.
pub fn replay(path: &str) -> i32 {
    let Ok(text) = std::fs::read_to_string(path) else { return 2 };
    let Ok(v) = serde_json::from_str::<serde_json::Value>(&text) else { return 2 };
    let Ok(sc) = serde_json::from_value::<Scenario>(v["scenario"].clone()) else { return 2 };
    let prefix: Vec<usize> = serde_json::from_value(v["choice_prefix"].clone()).unwrap_or_default();
    let prop = v["property"].as_str().unwrap_or("C22").to_string();
    println!("property {} scenario {} deviations {}", prop, sc.name, v["deviations"]);
    std::env::set_var("DWMC_TRACE", "1");
    std::env::set_var("WALRUS_QUIET", "1");
    let dir = std::env::temp_dir().join(format!("dwmc-replay-{}", std::process::id()));
    let _ = std::fs::create_dir_all(&dir);
    let r = run_item(&dir, &Item { sc: sc.clone(), prefix });
    let _ = std::fs::remove_dir_all(&dir);
    match r {
        Err(e) => {
            println!("machinery: {}", e);
            2
        }
        Ok(o) => {
            let ro: RunOut = serde_json::from_str(&o).unwrap_or_default();
            println!("PUT responses {:?}\nGET responses {:?}\nfinal drain {:?}", ro.put_responses, ro.gets, ro.final_gets);
            let verdict = if prop == "C23" { ro.c23.clone().map(|d| ("write.after.seal".to_string(), d)) } else { c22_oracle(&sc, &ro) };
            match verdict {
                Some((c, d)) => {
                    println!("REPRODUCED {}: {}", c, d);
                    1
                }
                None => {
                    println!("the schedule satisfies the oracle on this tree");
                    0
                }
            }
        }
    }
}

pub fn check(prop: &str, tier: &str) -> i32 {
    let t0 = Instant::now();
    let thorough = tier == "thorough";
    let scs = scenarios(thorough);
    let cap = if thorough { 1000.0 } else { 50.0 };
    let mut n_sched = 0u64;
    let mut n_ok = 0u64;
    let mut bad: Vec<(Item, String, String, Vec<String>)> = vec![];
    let mut known: HashMap<String, (u64, String)> = HashMap::new();
    let mut samples = vec![];
    let mut per_sc = serde_json::Map::new();
    let mut outcomes: HashSet<String> = HashSet::new();
    let mut errors: Vec<String> = vec![];
    let mut capmsg = None;
    let per_sc_cap = cap / scs.len() as f64;
    for sc in scs.iter() {
        let ts = Instant::now();
        let bound = if sc.nodes == 1 && thorough { 2 } else { 1 };
        // thorough tier, three nodes with a forwarded producer: a second deviation is allowed
        // when both are application lags (a follower applies a committed command early /
        // late) - the staleness patterns that need the producer's node, the owner and the
        // Raft leader to disagree
        let apply2 = thorough && sc.nodes == 3 && sc.threshold == 1 && sc.name.contains("P3@last");
        let eager = sc.eager;
        let per_sc_cap = if apply2 { per_sc_cap.max(300.0) } else { per_sc_cap };
        let mut work: Vec<Vec<usize>> = vec![vec![]];
        let mut count = 0u64;
        while !work.is_empty() {
            if ts.elapsed().as_secs_f64() > per_sc_cap {
                capmsg = Some(format!("time share {:.0} s used up in scenario {} with {} schedules still queued", per_sc_cap, sc.name, work.len()));
                break;
            }
            let batch: Vec<Vec<usize>> = work.drain(..work.len().min(60)).collect();
            let items: Vec<Item> = batch.iter().map(|p| Item { sc: sc.clone(), prefix: p.clone() }).collect();
            // the scenario's time share also bounds the batch (checked between child processes);
            // schedules of a batch that were not executed are counted as still queued
            let left = (per_sc_cap - ts.elapsed().as_secs_f64()).max(1.0);
            let (outs, c, errs) = cluster::in_children(&items, 20, left, &|dir, it| run_item(dir, it));
            if c.is_some() {
                let undone = outs.iter().filter(|o| o.is_none()).count();
                capmsg = Some(format!("time share {:.0} s used up in scenario {} with {} schedules still queued", per_sc_cap, sc.name, work.len() + undone));
            }
            errors.extend(errs);
            for (it, o) in items.iter().zip(outs.iter()) {
                let Some(o) = o else { continue };
                n_sched += 1;
                count += 1;
                let ro: RunOut = match serde_json::from_str(o) {
                    Ok(r) => r,
                    Err(_) => {
                        if o.contains("panic") {
                            bad.push((it.clone(), "panic".into(), "the simulated cluster panicked".into(), vec![]));
                        }
                        continue;
                    }
                };
                outcomes.insert(format!("{:?}|{:?}|{:?}", ro.acked, ro.gets, ro.final_gets));
                let verdict = if prop == "C23" { ro.c23.clone().map(|d| ("write.after.seal".to_string(), d)) } else { c22_oracle(sc, &ro) };
                let sched_desc: Vec<String> = ro.decisions.iter().filter(|d| d.1 != 0).map(|d| d.3.clone()).collect();
                match verdict {
                    None => n_ok += 1,
                    Some((class, detail)) => {
                        // known findings: classified by class of symptom and by what the deviation was
                        let kid = known_id(prop, sc, &class, &ro);
                        match kid.and_then(|k| crate::known_open(&k, prop).map(|t| (k, t))) {
                            Some((k, _t)) => {
                                let e = known.entry(k).or_insert((0, format!("scenario {} deviations {:?} -> {}", sc.name, sched_desc, detail)));
                                e.0 += 1;
                            }
                            None => {
                                if bad.len() < 4 {
                                    bad.push((it.clone(), class, detail, sched_desc.clone()));
                                }
                            }
                        }
                    }
                }
                // children: one more deviation at any later decision, within the bound
                let devs_in = |upto: usize| ro.decisions[..upto].iter().filter(|d| d.1 != 0 && d.2).count();
                for i in it.prefix.len()..ro.decisions.len() {
                    let d = &ro.decisions[i];
                    for alt in 1..d.0 {
                        let cost = devs_in(i) + if d.2 { 1 } else { 0 };
                        // a forced choice among equals (no task could continue) is free only for
                        // the canonical first option; alternatives still count as a deviation
                        let cost = if d.2 { cost } else { devs_in(i) + 1 };
                        if cost > bound {
                            // lazy default: the deviation *is* an application; eager default: the
                            // deviation is anything chosen while an application was due
                            let is_apply = |k: usize, opt: usize| ro.apply_opts.get(k).and_then(|v| v.get(if eager { 0 } else { opt })).copied().unwrap_or(false);
                            let earlier_all_apply = (0..i).filter(|k| ro.decisions[*k].1 != 0 && ro.decisions[*k].2).all(|k| is_apply(k, ro.decisions[k].1));
                            if !(apply2 && cost <= 2 && earlier_all_apply && is_apply(i, alt)) {
                                continue;
                            }
                        }
                        let mut p: Vec<usize> = ro.decisions[..i].iter().map(|x| x.1).collect();
                        p.push(alt);
                        work.push(p);
                    }
                }
                if samples.len() < 6 && n_sched % 211 == 1 {
                    samples.push(format!("{} deviations {:?} acked {:?} gets {:?} drain {:?}", sc.name, sched_desc, ro.acked, ro.gets, ro.final_gets));
                }
            }
            if bad.len() >= 4 {
                break;
            }
        }
        per_sc.insert(sc.name.clone(), json!({"schedules": count, "deviation_bound": bound, "second_deviation_if_both_are_application_lags": apply2}));
        if bad.len() >= 4 {
            break;
        }
    }
    let wall = t0.elapsed().as_secs_f64();
    let ev = Ev {
        prop: prop.into(),
        tier: tier.into(),
        states: n_ok,
        transitions: n_sched,
        traces: n_sched,
        samples,
        exhaustive: capmsg.is_none(),
        cap: capmsg.clone(),
        rule: "for every scenario (cluster size x rollover threshold x client programs, see detail) every schedule of the simulated cluster that deviates at most `deviation_bound` times from the default (keep running the same task; lowest task id otherwise; follower applications only when no task is ready; ticks never) is executed on the real controller/bucket/metadata/monitor/client code; a deviation = running another ready task, applying the next committed command on a follower, or firing a lease/monitor tick; states = schedules that satisfied the oracle".into(),
        extra: json!({"scenarios": per_sc, "known_finding_hits": known.iter().map(|(k, v)| (k.clone(), v.0)).collect::<HashMap<_, _>>(), "machinery_errors": errors.iter().take(3).collect::<Vec<_>>()}),
        assumptions: vec![
            "consensus is the SimRaft stand-in: one totally ordered log, leader applies at proposal time, followers apply as explicit events; openraft/QUIC are not executed".into(),
            "tokio stand-in: single-threaded executor, scheduling points at lock acquisitions, spawn_blocking, socket I/O, RPC send/receive, propose; engine calls (spawn_blocking bodies) run atomically".into(),
            "the RPC dispatch closure of main.rs is re-stated in the harness".into(),
        ],
        violations: bad.len() as u64,
        wall,
        outcomes: outcomes.len() as u64,
    };
    evidence::write(&ev, prop);
    println!("{} {}: schedules={} ok={} known={} outcomes={} exhaustive={} wall={:.1}s", prop, tier, n_sched, n_ok, known.values().map(|v| v.0).sum::<u64>(), outcomes.len(), capmsg.is_none(), wall);
    for e in errors.iter().take(3) {
        eprintln!("machinery: {}", e);
    }
    for (k, (n, eg)) in known.iter() {
        println!("KNOWN-FINDING: property={} {} [{}] {} schedules, e.g. {}", prop, crate::known_open(k, prop).unwrap_or_default(), k, n, eg);
    }
    if !bad.is_empty() {
        for (it, class, detail, devs) in bad.iter() {
            let path = evidence::replay(prop, json!({"property":prop,"engine":"dwmc-flow","scenario":it.sc,"choice_prefix":it.prefix,"deviations":devs,"class":class,"detail":detail}));
            println!("VIOLATION property={} replay={}", prop, path);
            println!("  scenario {} deviations {:?} :: {} -> {}", it.sc.name, devs, class, detail);
        }
        return 1;
    }
    if n_sched == 0 {
        return 2;
    }
    0
}

/// Known findings are matched only in scenarios with at least two concurrent producer
/// connections (the race needs two appends in flight around a rollover); a loss or a late
/// write with a single sequential producer is always a violation.
/// Which recorded finding, if any, explains this failing schedule. The predicates name the
/// mechanism, not the symptom: a loss with another cause is still reported.
fn known_id(prop: &str, sc: &Scenario, class: &str, ro: &RunOut) -> Option<String> {
    match (prop, class) {
        // the owner of a segment appended to it on the strength of its own, lagging metadata
        // after the cluster had committed the sealing
        ("C22", "lost") if ro.stale_owner_write && !ro.overfull.is_empty() => Some("K-C22-stale-owner".into()),
        // two producers: an append that passed the lease check landed behind the count that
        // the other producer's rollover sealed
        ("C22", "lost") if sc.producers.len() >= 2 && !ro.overfull.is_empty() => Some("K-C22-ack-after-count".into()),
        ("C23", "write.after.seal") if sc.producers.len() >= 2 => Some("K-C23-lease-check-then-act".into()),
        _ => None,
    }
}
