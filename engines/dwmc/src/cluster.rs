//! Simulated cluster: N real NodeControllers (real Storage = real Walrus engine, real
//! Metadata, real client accept loop, real lease loop and monitor) on the deterministic
//! executor of the tokio stand-in, attached to the SimRaft of the octopii stand-in.
use crate::bucket::Storage;
use crate::config::NodeConfig;
use crate::controller::NodeController;
use crate::metadata::{Metadata, MetadataCmd};
use crate::monitor::Monitor;
use crate::rpc::{InternalOp, InternalResp};
use octopii::rpc::{RequestPayload, ResponsePayload};
use octopii::{SimRaft, StateMachineTrait};
use serde::{Deserialize, Serialize};
use std::collections::HashMap;
use std::io::{BufRead, Write};
use std::os::unix::io::FromRawFd;
use std::path::{Path, PathBuf};
use std::sync::{Arc, Mutex};
use std::time::Instant;
use tokio::sim;

pub struct Cluster {
    pub raft: Arc<SimRaft>,
    pub nodes: Vec<Arc<NodeController>>,
    pub metas: Vec<Arc<Metadata>>,
}

pub fn addr_of(i: usize) -> String {
    format!("127.0.0.1:{}", 7001 + i)
}
pub fn bind_of(i: usize) -> String {
    format!("client-node-{}", i + 1)
}

/// Build an N-node cluster rooted at `dir`; node ids are 1..=N, node 1 is the Raft leader.
pub fn build(dir: &Path, n: usize, with_loops: bool) -> Cluster {
    sim::reset();
    let raft = SimRaft::new(1);
    let mut nodes = vec![];
    let mut metas = vec![];
    for i in 0..n {
        let id = (i + 1) as u64;
        let storage_dir = dir.join(format!("node_{}", id)).join("user_data");
        let bucket = Arc::new(tokio::block_on(Storage::new(storage_dir)).expect("storage"));
        let metadata = Arc::new(Metadata::new());
        let node = raft.add_node(id, addr_of(i).parse().unwrap(), metadata.clone() as Arc<dyn StateMachineTrait>);
        let controller = Arc::new(NodeController {
            node_id: id,
            bucket,
            metadata: metadata.clone(),
            raft: node,
            offsets: Arc::new(tokio::sync::RwLock::new(HashMap::new())),
            read_cursors: Arc::new(tokio::sync::Mutex::new(HashMap::new())),
            test_fail_forward_read: std::sync::atomic::AtomicBool::new(false),
            test_fail_monitor: std::sync::atomic::AtomicBool::new(false),
            test_fail_dir_size: std::sync::atomic::AtomicBool::new(false),
        });
        // the RPC dispatch closure of distributed-walrus/src/main.rs, re-stated (main.rs
        // cannot be included: it starts the real octopii node)
        let c2 = controller.clone();
        raft.set_handler(
            id,
            Arc::new(move |req: octopii::rpc::RpcRequest| {
                let controller_rpc = c2.clone();
                Box::pin(async move {
                    if let RequestPayload::Custom { operation, data } = req.payload {
                        if operation == "Forward" {
                            match bincode::deserialize::<InternalOp>(&data) {
                                Ok(op) => {
                                    let resp = controller_rpc.handle_rpc(op).await;
                                    let success = !matches!(resp, InternalResp::Error(_));
                                    let bytes = bincode::serialize(&resp).unwrap_or_default();
                                    return ResponsePayload::CustomResponse { success, data: bytes.into() };
                                }
                                Err(e) => return ResponsePayload::Error { message: format!("decode error: {e}") },
                            }
                        }
                    }
                    ResponsePayload::Error { message: "unsupported".into() }
                }) as octopii::BoxFuture<ResponsePayload>
            }),
        );
        nodes.push(controller);
        metas.push(metadata);
    }
    // every node's address is in the metadata, applied everywhere (what main.rs + JoinCluster do)
    {
        let mut g = raft.inner.lock().unwrap();
        for i in 0..n {
            g.log.push(bincode::serialize(&MetadataCmd::UpsertNode { node_id: (i + 1) as u64, addr: addr_of(i) }).unwrap());
        }
    }
    raft.apply_all();
    for (i, c) in nodes.iter().enumerate() {
        let c1 = c.clone();
        let b = bind_of(i);
        sim::spawn_named(&format!("listener{}", i + 1), async move {
            let _ = crate::client::start_client_listener(c1, b).await;
        });
        if with_loops {
            let c2 = c.clone();
            sim::spawn_named(&format!("lease{}", i + 1), async move {
                c2.run_lease_update_loop().await;
            });
            let c3 = c.clone();
            let cfg = <NodeConfig as clap::Parser>::parse_from(vec!["dwmc".to_string(), "--node-id".to_string(), (i + 1).to_string()]);
            sim::spawn_named(&format!("monitor{}", i + 1), async move {
                Monitor::new(c3, cfg).run().await;
            });
        }
    }
    Cluster { raft, nodes, metas }
}

/// one scheduling decision of the simulated run
#[derive(Clone, Debug, Serialize, Deserialize, PartialEq)]
pub enum Choice {
    Task(usize),
    Apply(u64),
    Tick(usize),
}

#[derive(Clone, Debug, Default)]
pub struct Decision {
    pub options: Vec<Choice>,
    pub chosen: usize,
    /// the task that ran last could continue (choosing anything else is a deviation)
    pub last_ready: bool,
    pub desc: String,
}

/// Run until nothing is enabled. `prefix` = indices into the option list at each decision;
/// after the prefix the default (index 0) is taken. Options, in canonical order: the task
/// that ran last if ready, the other ready tasks ascending, follower applications (node
/// ascending), ticks of waiting intervals within `tick_budget` (only when `ticks_enabled`).
/// `observe` is called after every step.
/// Default policy for follower applications. false (lazy): a follower applies a committed
/// command only when the explorer says so or nothing else can run. true (eager): pending
/// applications come first in the canonical order, so by default every follower is up to
/// date and a *delay* is the deviation.
pub static EAGER_APPLY: std::sync::atomic::AtomicBool = std::sync::atomic::AtomicBool::new(false);

pub fn run(cl: &Cluster, prefix: &[usize], ticks_enabled: bool, tick_budget: usize, max_steps: usize, mut observe: impl FnMut(&Cluster, &Choice)) -> (Vec<Decision>, bool) {
    let eager = EAGER_APPLY.load(std::sync::atomic::Ordering::SeqCst);
    let mut ds: Vec<Decision> = vec![];
    let mut last: Option<usize> = None;
    let mut ticks_fired: HashMap<usize, usize> = HashMap::new();
    for _ in 0..max_steps {
        let mut ready = sim::ready_tasks();
        let last_ready = last.map(|l| ready.contains(&l)).unwrap_or(false);
        if let Some(l) = last {
            if last_ready {
                ready.retain(|x| *x != l);
                ready.insert(0, l);
            }
        }
        let mut options: Vec<Choice> = ready.iter().map(|t| Choice::Task(*t)).collect();
        let lagging = cl.raft.lagging();
        let mut last_ready = last_ready;
        if eager && !lagging.is_empty() {
            // applications first; anything else is a deviation (a delay)
            let mut o: Vec<Choice> = lagging.iter().map(|n| Choice::Apply(*n)).collect();
            o.extend(options);
            options = o;
            last_ready = true;
        } else {
            for nid in lagging {
                options.push(Choice::Apply(nid));
            }
        }
        if ticks_enabled {
            for (iv, _t) in sim::waiting_intervals() {
                if *ticks_fired.get(&iv).unwrap_or(&0) < tick_budget {
                    options.push(Choice::Tick(iv));
                }
            }
        }
        // without ready tasks, ticks alone never keep the run alive by default
        let only_ticks = options.iter().all(|o| matches!(o, Choice::Tick(_)));
        let di = ds.len();
        if options.is_empty() || (only_ticks && di >= prefix.len()) {
            return (ds, true);
        }
        let idx = if di < prefix.len() { prefix[di].min(options.len() - 1) } else { 0 };
        let choice = options[idx].clone();
        let desc = match &choice {
            Choice::Task(t) => format!("{}@{}", sim::task_name(*t), sim::last_point()),
            Choice::Apply(n) => format!("apply@node{}", n),
            Choice::Tick(i) => format!("tick#{}", i),
        };
        ds.push(Decision { options: options.clone(), chosen: idx, last_ready, desc });
        match &choice {
            Choice::Task(t) => {
                sim::step(*t);
                last = Some(*t);
            }
            Choice::Apply(n) => cl.raft.apply_next(*n),
            Choice::Tick(i) => {
                *ticks_fired.entry(*i).or_insert(0) += 1;
                sim::fire_tick(*i);
            }
        }
        observe(cl, &choice);
    }
    (ds, false)
}

pub fn frame(body: &[u8]) -> Vec<u8> {
    let mut v = (body.len() as u32).to_le_bytes().to_vec();
    v.extend_from_slice(body);
    v
}

pub fn parse_responses(out: &[u8]) -> Vec<String> {
    let mut v = vec![];
    let mut i = 0;
    while i + 4 <= out.len() {
        let n = u32::from_le_bytes(out[i..i + 4].try_into().unwrap()) as usize;
        if i + 4 + n > out.len() {
            v.push("<truncated response>".into());
            break;
        }
        v.push(String::from_utf8_lossy(&out[i + 4..i + 4 + n]).to_string());
        i += 4 + n;
    }
    v
}

/// Run `f` on every item in forked children (every cluster leaks engine threads).
pub fn in_children<T: Serialize + for<'a> Deserialize<'a> + Clone>(
    items: &[T],
    chunk: usize,
    cap_s: f64,
    f: &dyn Fn(&Path, &T) -> Result<String, String>,
) -> (Vec<Option<String>>, Option<String>, Vec<String>) {
    let t0 = Instant::now();
    let root = PathBuf::from(if Path::new("/dev/shm").is_dir() { "/dev/shm" } else { "/tmp" }).join(format!("dwmc.{}", std::process::id()));
    let _ = std::fs::create_dir_all(&root);
    let mut out: Vec<Option<String>> = vec![None; items.len()];
    let mut cap = None;
    let mut errors = vec![];
    for (ci, ch) in items.chunks(chunk).enumerate() {
        if t0.elapsed().as_secs_f64() > cap_s {
            cap = Some(format!("time cap {} s after {} of {} items", cap_s, ci * chunk, items.len()));
            break;
        }
        let mut fds = [0i32; 2];
        unsafe { libc_pipe(&mut fds) };
        let pid = unsafe { fork() };
        if pid == 0 {
            unsafe { close(fds[0]) };
            let mut w = unsafe { std::fs::File::from_raw_fd(fds[1]) };
            std::panic::set_hook(Box::new(|_| {}));
            std::env::set_var("WALRUS_QUIET", "1");
            for (k, it) in ch.iter().enumerate() {
                let dir = root.join(format!("c{}_{}", ci, k));
                let _ = std::fs::remove_dir_all(&dir);
                let _ = std::fs::create_dir_all(&dir);
                let r = std::panic::catch_unwind(std::panic::AssertUnwindSafe(|| f(&dir, it)));
                sim::shutdown();
                let _ = std::fs::remove_dir_all(&dir);
                let line = match r {
                    Ok(Ok(s)) => format!("ok {}", s.replace('\n', " ")),
                    Ok(Err(e)) => format!("err {}", e.replace('\n', " ")),
                    Err(_) => "ok {\"panic\":true}".to_string(),
                };
                let _ = writeln!(w, "{} {}", k, line);
            }
            let _ = w.flush();
            unsafe { _exit(0) };
        }
        unsafe { close(fds[1]) };
        let rd = std::io::BufReader::new(unsafe { std::fs::File::from_raw_fd(fds[0]) });
        let mut seen = 0;
        for line in rd.lines().flatten() {
            let mut parts = line.splitn(3, ' ');
            let k: usize = parts.next().and_then(|s| s.parse().ok()).unwrap_or(0);
            let tag = parts.next().unwrap_or("");
            let rest = parts.next().unwrap_or("").to_string();
            seen += 1;
            if tag == "ok" {
                out[ci * chunk + k] = Some(rest);
            } else {
                errors.push(rest);
            }
        }
        let mut st = 0i32;
        unsafe { waitpid(pid, &mut st, 0) };
        if seen < ch.len() {
            errors.push(format!("child of chunk {} died after {} of {} items (status {})", ci, seen, ch.len(), st));
        }
    }
    let _ = std::fs::remove_dir_all(&root);
    (out, cap, errors)
}

extern "C" {
    fn fork() -> i32;
    fn close(fd: i32) -> i32;
    fn _exit(code: i32) -> !;
    fn waitpid(pid: i32, status: *mut i32, options: i32) -> i32;
    fn pipe(fds: *mut i32) -> i32;
}
unsafe fn libc_pipe(fds: &mut [i32; 2]) {
    pipe(fds.as_mut_ptr());
}
