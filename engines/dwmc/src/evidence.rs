//! Evidence / replay writers shared by the dwmc checks.
use serde_json::{json, Value};

pub struct Ev {
    pub prop: String,
    pub tier: String,
    pub states: u64,
    pub transitions: u64,
    pub traces: u64,
    pub samples: Vec<String>,
    pub exhaustive: bool,
    pub cap: Option<String>,
    pub rule: String,
    pub extra: Value,
    pub assumptions: Vec<String>,
    pub violations: u64,
    pub wall: f64,
    pub outcomes: u64,
}

pub fn write(ev: &Ev, file_id: &str) {
    let seed: i64 = std::env::var("VERIF_SEED").ok().and_then(|s| s.parse().ok()).unwrap_or(0);
    let mut samples: Vec<Value> = ev.samples.iter().map(|s| Value::String(s.clone())).collect();
    if samples.is_empty() {
        samples.push(Value::String("(none)".into()));
    }
    let v = json!({
        "property_id": ev.prop, "tier": ev.tier, "seed": seed, "level": "model_checking",
        "wall_s": ev.wall, "violations": ev.violations,
        "coverage": {
            "states": ev.states, "transitions": ev.transitions, "traces_validated_against_impl": ev.traces,
            "evaluations": ev.transitions, "distinct_nontrivial": ev.states, "rule": ev.rule, "samples": samples,
            "exhaustive": ev.exhaustive, "cap_hit": ev.cap, "distinct_outcomes": ev.outcomes, "detail": ev.extra,
            "explanation": "every transition calls the repository's real code (compiled unmodified by #[path] against stand-in crates), so transitions == traces validated against the implementation",
        },
        "assumptions": ev.assumptions,
    });
    let _ = std::fs::create_dir_all("/verif/evidence");
    std::fs::write(format!("/verif/evidence/{}.json", file_id), serde_json::to_string_pretty(&v).unwrap()).expect("write evidence");
}

pub fn replay(prop: &str, body: Value) -> String {
    let dir = format!("/verif/replays/{}", prop);
    let _ = std::fs::create_dir_all(&dir);
    let text = serde_json::to_string_pretty(&body).unwrap();
    let mut h: u64 = 0xcbf29ce484222325;
    for b in text.as_bytes() {
        h ^= *b as u64;
        h = h.wrapping_mul(0x100000001B3);
    }
    let path = format!("{}/{:016x}.json", dir, h);
    let _ = std::fs::write(&path, text);
    path
}
