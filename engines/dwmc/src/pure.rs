//! Pure explicit-state checks over the real `Metadata` state machine (C18, C20a) and the
//! storage-key codec (C25).
use crate::controller::{parse_wal_key, wal_key};
use crate::evidence::{self, Ev};
use crate::metadata::{ClusterState, Metadata, MetadataCmd};
use octopii::StateMachineTrait;
use serde_json::json;
use std::collections::{BTreeMap, HashSet, VecDeque};
use std::panic::{catch_unwind, AssertUnwindSafe};
use std::time::Instant;

/// canonical, sorted rendering of a metadata state
pub fn canon(md: &Metadata) -> Result<String, String> {
    decode(md).map(|cs| canon_state(&cs)).ok_or_else(|| "state not readable".to_string())
}

pub fn canon_state(cs: &ClusterState) -> String {
    let mut topics: BTreeMap<&String, String> = BTreeMap::new();
    for (name, t) in cs.topics.iter() {
        let sealed: BTreeMap<u64, u64> = t.sealed_segments.iter().map(|(k, v)| (*k, *v)).collect();
        let leaders: BTreeMap<u64, u64> = t.segment_leaders.iter().map(|(k, v)| (*k, *v)).collect();
        topics.insert(
            name,
            format!("cur={} leader={} off={} sealed={:?} leaders={:?}", t.current_segment, t.leader_node, t.last_sealed_entry_offset, sealed, leaders),
        );
    }
    let nodes: BTreeMap<u64, &String> = cs.nodes.iter().map(|(k, v)| (*k, v)).collect();
    format!("topics={:?} nodes={:?}", topics, nodes)
}

/// The state as the public accessors report it (NOT through snapshot(), which is itself under
/// test in C20): topic states of every name the alphabets use, and the node address book.
fn decode(md: &Metadata) -> Option<ClusterState> {
    let mut cs = ClusterState::default();
    for name in ["a", "b", "c", ""] {
        if let Some(t) = md.get_topic_state(name) {
            cs.topics.insert(name.to_string(), t);
        }
    }
    for (id, addr) in md.all_node_addrs() {
        cs.nodes.insert(id, addr);
    }
    Some(cs)
}

fn decode_snapshot(md: &Metadata) -> Option<ClusterState> {
    bincode::deserialize(&md.snapshot()).ok()
}

/// structural invariants of C18 on one state; `prev` = predecessor (for immutability)
pub fn invariants(prev: Option<&ClusterState>, cs: &ClusterState) -> Option<String> {
    for (name, t) in cs.topics.iter() {
        let cur = t.current_segment;
        if cur == 0 {
            return Some(format!("topic {}: current segment is 0", name));
        }
        // segments numbered 1..current, exactly one leader each
        let mut keys: Vec<u64> = t.segment_leaders.keys().copied().collect();
        keys.sort();
        let want: Vec<u64> = (1..=cur).collect();
        if keys != want {
            return Some(format!("topic {}: segment leaders are recorded for {:?}, expected exactly 1..={}", name, keys, cur));
        }
        if t.segment_leaders.get(&cur) != Some(&t.leader_node) {
            return Some(format!(
                "topic {}: leader of the open segment {} is {:?} but the topic leader is {}",
                name,
                cur,
                t.segment_leaders.get(&cur),
                t.leader_node
            ));
        }
        let mut sk: Vec<u64> = t.sealed_segments.keys().copied().collect();
        sk.sort();
        let wants: Vec<u64> = (1..cur).collect();
        if sk != wants {
            return Some(format!("topic {}: sealed segments are {:?}, expected exactly 1..{}", name, sk, cur));
        }
        let sum: u128 = t.sealed_segments.values().map(|v| *v as u128).sum();
        if sum != t.last_sealed_entry_offset as u128 {
            return Some(format!(
                "topic {}: cumulative sealed offset {} differs from the sum of sealed counts {}",
                name, t.last_sealed_entry_offset, sum
            ));
        }
        if let Some(p) = prev.and_then(|p| p.topics.get(name)) {
            if cur < p.current_segment {
                return Some(format!("topic {}: current segment went back from {} to {}", name, p.current_segment, cur));
            }
            for (seg, cnt) in p.sealed_segments.iter() {
                if t.sealed_segments.get(seg) != Some(cnt) {
                    return Some(format!(
                        "topic {}: sealed segment {} had count {} and now has {:?}",
                        name,
                        seg,
                        cnt,
                        t.sealed_segments.get(seg)
                    ));
                }
                if t.segment_leaders.get(seg) != p.segment_leaders.get(seg) {
                    return Some(format!(
                        "topic {}: leader of sealed segment {} changed from {:?} to {:?}",
                        name,
                        seg,
                        p.segment_leaders.get(seg),
                        t.segment_leaders.get(seg)
                    ));
                }
            }
        }
    }
    if let Some(p) = prev {
        for name in p.topics.keys() {
            if !cs.topics.contains_key(name) {
                return Some(format!("topic {} disappeared", name));
            }
        }
    }
    None
}

fn cmd_str(c: &MetadataCmd) -> String {
    format!("{:?}", c)
}

pub fn alphabet(thorough: bool) -> Vec<Vec<u8>> {
    let mut v: Vec<MetadataCmd> = Vec::new();
    for name in ["a", "b"] {
        for l in 1..=3u64 {
            v.push(MetadataCmd::CreateTopic { name: name.into(), initial_leader: l });
        }
    }
    let _ = thorough;
    let counts: Vec<u64> = vec![0, 1, 2, u64::MAX];
    for name in ["a", "b", "c"] {
        for l in 1..=3u64 {
            for c in counts.iter() {
                v.push(MetadataCmd::RolloverTopic { name: name.into(), new_leader: l, sealed_segment_entry_count: *c });
            }
        }
    }
    for n in 1..=3u64 {
        for a in ["x", "y"] {
            v.push(MetadataCmd::UpsertNode { node_id: n, addr: a.into() });
        }
    }
    v.iter().map(|c| bincode::serialize(c).unwrap()).collect()
}

fn describe(bytes: &[u8]) -> String {
    match bincode::deserialize::<MetadataCmd>(bytes) {
        Ok(c) => cmd_str(&c),
        Err(_) => format!("bytes{:?}", bytes),
    }
}

fn build(hist: &[Vec<u8>]) -> Metadata {
    let md = Metadata::new();
    for c in hist {
        let _ = md.apply(c);
    }
    md
}

struct Bfs {
    states: u64,
    transitions: u64,
    outcomes: HashSet<String>,
    samples: Vec<String>,
    violation: Option<(Vec<Vec<u8>>, String)>,
    cap: Option<String>,
    depth_done: usize,
}

/// BFS over command sequences; `per_state` is an extra oracle evaluated on every new state
/// (history given) and may report a violation.
fn bfs(alpha: &[Vec<u8>], depth: usize, cap_s: f64, per_state: &dyn Fn(&[Vec<u8>], &Metadata) -> Option<String>) -> Bfs {
    let t0 = Instant::now();
    let mut out = Bfs { states: 1, transitions: 0, outcomes: HashSet::new(), samples: vec![], violation: None, cap: None, depth_done: 0 };
    let mut seen: HashSet<String> = HashSet::new();
    let mut frontier: Vec<Vec<Vec<u8>>> = vec![vec![]];
    seen.insert(canon(&Metadata::new()).unwrap_or_default());
    for d in 1..=depth {
        let mut next: Vec<Vec<Vec<u8>>> = Vec::new();
        for hist in frontier.iter() {
            if t0.elapsed().as_secs_f64() > cap_s {
                out.cap = Some(format!("time cap {} s at depth {} (depth {} complete)", cap_s, d, d - 1));
                return out;
            }
            let base = build(hist);
            let prev = decode(&base);
            for c in alpha.iter() {
                out.transitions += 1;
                let md = build(hist);
                let r = catch_unwind(AssertUnwindSafe(|| md.apply(c)));
                let mut h2 = hist.clone();
                h2.push(c.clone());
                let res = match r {
                    Err(_) => {
                        out.violation = Some((h2, "apply panicked".into()));
                        return out;
                    }
                    Ok(r) => r,
                };
                out.outcomes.insert(match &res {
                    Ok(b) => String::from_utf8_lossy(b).to_string(),
                    Err(e) => format!("Err({})", e),
                });
                let Some(cs) = decode(&md) else {
                    out.violation = Some((h2, "state snapshot does not decode".into()));
                    return out;
                };
                if res.is_err() {
                    if let Some(p) = prev.as_ref() {
                        if canon_state(p) != canon_state(&cs) {
                            out.violation = Some((h2, "a command that returned an error changed the state".into()));
                            return out;
                        }
                    }
                }
                if let Some(msg) = invariants(prev.as_ref(), &cs) {
                    out.violation = Some((h2, msg));
                    return out;
                }
                let key = canon_state(&cs);
                if seen.insert(key) {
                    out.states += 1;
                    if let Some(msg) = per_state(&h2, &md) {
                        out.violation = Some((h2, msg));
                        return out;
                    }
                    if out.samples.len() < 5 && out.states % 331 == 2 {
                        out.samples.push(h2.iter().map(|c| describe(c)).collect::<Vec<_>>().join("; "));
                    }
                    next.push(h2);
                }
            }
        }
        out.depth_done = d;
        frontier = next;
    }
    out
}

/// byte-string robustness: short strings, truncations and single-byte substitutions of valid
/// encodings, applied on a few representative states
fn byte_family(alpha: &[Vec<u8>]) -> Vec<Vec<u8>> {
    let mut v: Vec<Vec<u8>> = vec![vec![]];
    for a in 0..=255u8 {
        v.push(vec![a]);
    }
    for a in [0u8, 1, 2, 3, 0x7f, 0x80, 0xff] {
        for b in [0u8, 1, 2, 0x7f, 0x80, 0xff] {
            v.push(vec![a, b]);
        }
    }
    for enc in alpha.iter().step_by(5) {
        for cut in 0..enc.len() {
            v.push(enc[..cut].to_vec());
        }
        for i in 0..enc.len() {
            for s in [0x00u8, 0x01, 0x7f, 0x80, 0xff] {
                if enc[i] != s {
                    let mut e = enc.clone();
                    e[i] = s;
                    v.push(e);
                }
            }
        }
    }
    v
}

fn finish(prop: &str, file_id: &str, tier: &str, t0: Instant, b: &Bfs, extra_tr: u64, rule: String, extra: serde_json::Value, assumptions: Vec<String>, violation: Option<(String, String)>) -> i32 {
    let ev = Ev {
        prop: prop.into(),
        tier: tier.into(),
        states: b.states,
        transitions: b.transitions + extra_tr,
        traces: b.transitions + extra_tr,
        samples: b.samples.clone(),
        exhaustive: b.cap.is_none(),
        cap: b.cap.clone(),
        rule,
        extra,
        assumptions,
        violations: violation.is_some() as u64,
        wall: t0.elapsed().as_secs_f64(),
        outcomes: b.outcomes.len() as u64,
    };
    evidence::write(&ev, file_id);
    println!(
        "{} {}: states={} transitions={} depth_completed={} exhaustive={} outcomes={} wall={:.1}s",
        prop,
        tier,
        ev.states,
        ev.transitions,
        b.depth_done,
        ev.exhaustive,
        ev.outcomes,
        ev.wall
    );
    if let Some((hist, msg)) = violation {
        let path = evidence::replay(prop, json!({"property": prop, "engine": "dwmc-pure", "history": hist, "detail": msg}));
        println!("VIOLATION property={} replay={}", prop, path);
        println!("  {} :: {}", hist, msg);
        return 1;
    }
    0
}

pub fn check_c18(tier: &str) -> i32 {
    let t0 = Instant::now();
    let thorough = tier == "thorough";
    let alpha = alphabet(thorough);
    let depth = if thorough { 6 } else { 4 };
    let b = bfs(&alpha, depth, if thorough { 900.0 } else { 40.0 }, &|_, _| None);
    let mut violation = b.violation.as_ref().map(|(h, m)| (h.iter().map(|c| describe(c)).collect::<Vec<_>>().join("; "), m.clone()));
    // byte strings on three representative states
    let mut extra_tr = 0u64;
    if violation.is_none() {
        let fam = byte_family(&alpha);
        let bases: Vec<Vec<Vec<u8>>> = vec![
            vec![],
            vec![alpha[0].clone(), bincode::serialize(&MetadataCmd::RolloverTopic { name: "a".into(), new_leader: 2, sealed_segment_entry_count: 1 }).unwrap()],
            vec![alpha[0].clone(), alpha[4].clone(), bincode::serialize(&MetadataCmd::UpsertNode { node_id: 1, addr: "x".into() }).unwrap()],
        ];
        'outer: for base in bases.iter() {
            for bytes in fam.iter() {
                extra_tr += 1;
                let md = build(base);
                let before = canon(&md).unwrap_or_default();
                let prev = decode(&md);
                let r = catch_unwind(AssertUnwindSafe(|| md.apply(bytes)));
                let hist = format!("{} ; bytes{:?}", base.iter().map(|c| describe(c)).collect::<Vec<_>>().join("; "), bytes);
                match r {
                    Err(_) => {
                        violation = Some((hist, "apply panicked on a byte string".into()));
                        break 'outer;
                    }
                    Ok(Err(_)) => {
                        if canon(&md).unwrap_or_default() != before {
                            violation = Some((hist, "undecodable / rejected bytes changed the state".into()));
                            break 'outer;
                        }
                    }
                    Ok(Ok(_)) => {
                        if let Some(cs) = decode(&md) {
                            if let Some(msg) = invariants(prev.as_ref(), &cs) {
                                violation = Some((hist, msg));
                                break 'outer;
                            }
                        }
                    }
                }
            }
        }
    }
    finish(
        "C18",
        "C18",
        tier,
        t0,
        &b,
        extra_tr,
        format!("BFS over all sequences of <= {} commands from a {}-command alphabet (CreateTopic a|b x leader 1..3, RolloverTopic a|b|c(unknown) x leader 1..3 x count, UpsertNode 1..3 x 2 addrs) applied through the real Metadata::apply; states de-duplicated by the sorted decoded snapshot; invariants checked on every transition; plus every byte string of length <= 1, 42 of length 2 and every truncation / single-byte substitution {{00,01,7f,80,ff}} of every fifth valid encoding, on 3 base states", depth, alpha.len()),
        json!({"alphabet": alpha.len(), "depth": depth}),
        vec!["bincode stand-in (bincode 1.3 default wire format re-implemented in /verif/engines/standins/bincode) decodes commands; decode robustness is relative to it".into()],
        violation,
    )
}

pub fn check_c20a(tier: &str) -> i32 {
    let t0 = Instant::now();
    let thorough = tier == "thorough";
    let alpha = alphabet(false);
    let depth = if thorough { 5 } else { 3 };
    let lock = alpha.clone();
    let stale_cmds = alpha.clone();
    let per_state = move |hist: &[Vec<u8>], md: &Metadata| -> Option<String> {
        // the snapshot describes the state the accessors report ...
        match decode_snapshot(md) {
            Some(cs) => {
                let via_snapshot = canon_state(&cs);
                let via_api = canon(md).unwrap_or_default();
                if via_snapshot != via_api {
                    return Some(format!("snapshot() encodes {} but the state machine holds {}", via_snapshot, via_api));
                }
            }
            None => return Some("snapshot() does not decode as a cluster state".into()),
        }
        // ... restore(snapshot()) into a fresh state machine reproduces the state exactly ...
        let snap = md.snapshot();
        let fresh = Metadata::new();
        if let Err(e) = fresh.restore(&snap) {
            return Some(format!("restore of its own snapshot failed: {}", e));
        }
        let a = canon(md).unwrap_or_default();
        let b = canon(&fresh).unwrap_or_else(|e| e);
        if a != b {
            return Some(format!("restored state differs: original {} restored {}", a, b));
        }
        // ... a replica that fell behind at any earlier point of the history and catches up
        // through the snapshot ends up with exactly the sender's state ...
        for k in 0..hist.len() {
            let stale = Metadata::new();
            for c in hist[..k].iter() {
                let _ = stale.apply(c);
            }
            if let Err(e) = stale.restore(&snap) {
                return Some(format!("restore into a replica that had applied the first {} commands failed: {}", k, e));
            }
            let s = canon(&stale).unwrap_or_else(|e| e);
            if s != a {
                return Some(format!("a replica that had applied the first {} of {} commands and then restored the snapshot holds {} but the sender holds {}", k, hist.len(), s, a));
            }
        }
        // ... also a replica whose own past differs from the sender's path (states are merged
        // by content, so the history above is only one way here): one holding the effect of
        // any single command of the alphabet
        for c in stale_cmds.iter() {
            let stale = Metadata::new();
            let _ = stale.apply(c);
            if stale.restore(&snap).is_err() {
                return Some(format!("restore into a replica that had applied {} failed", describe(c)));
            }
            let s = canon(&stale).unwrap_or_else(|e| e);
            if s != a {
                return Some(format!("a replica that had applied {} and then restored the snapshot holds {} but the sender holds {}", describe(c), s, a));
            }
        }
        // ... and the pair stays equal in lock-step for two more levels
        for c1 in lock.iter().step_by(3) {
            let o = build(hist);
            let f = Metadata::new();
            let _ = f.restore(&o.snapshot());
            let r1 = o.apply(c1).map(|b| b.to_vec());
            let r2 = f.apply(c1).map(|b| b.to_vec());
            if r1 != r2 || canon(&o).ok() != canon(&f).ok() {
                return Some(format!("after restore, {} behaves differently on the restored replica", describe(c1)));
            }
            for c2 in lock.iter().step_by(7) {
                let r1 = o.apply(c2).map(|b| b.to_vec());
                let r2 = f.apply(c2).map(|b| b.to_vec());
                if r1 != r2 || canon(&o).ok() != canon(&f).ok() {
                    return Some(format!("after restore, {}; {} behaves differently on the restored replica", describe(c1), describe(c2)));
                }
            }
        }
        None
    };
    let b = bfs(&alpha, depth, if thorough { 900.0 } else { 40.0 }, &per_state);
    let violation = b.violation.as_ref().map(|(h, m)| (h.iter().map(|c| describe(c)).collect::<Vec<_>>().join("; "), m.clone()));
    finish(
        "C20",
        "C20",
        tier,
        t0,
        &b,
        0,
        format!("C18's BFS to depth {}; at every distinct state restore(snapshot()) into a fresh Metadata, into a replica that had applied any proper prefix of the history, and into a replica that had applied any single command of the alphabet, must give the same canonical state, and the pair is stepped in lock-step through a third of the alphabet and then a seventh of it", depth),
        json!({"part": "a (Metadata::snapshot/restore)"}),
        vec!["bincode stand-in as in C18".into()],
        violation,
    )
}

pub fn check_c25(tier: &str) -> i32 {
    let t0 = Instant::now();
    let thorough = tier == "thorough";
    let syms = ["t", "s", "_", "0", "1", "a"];
    let maxlen = if thorough { 7 } else { 6 };
    let mut topics: Vec<String> = vec![String::new()];
    let mut cur: Vec<String> = vec![String::new()];
    for _ in 0..maxlen {
        let mut nxt = Vec::new();
        for k in cur.iter() {
            for s in syms.iter() {
                nxt.push(format!("{}{}", k, s));
            }
        }
        topics.extend(nxt.iter().cloned());
        cur = nxt;
    }
    for s in ["é", "_s_", "_s_7", "t_", "t__s_1", "a_s_", "_s_0_s_0", "s_", "t_t_s_1_s_2"] {
        topics.push(s.to_string());
    }
    topics.push("a".repeat(300));
    topics.sort();
    topics.dedup();
    let mut segs: Vec<u64> = if thorough { (0..=1000).collect() } else { (0..=20).collect() };
    let mut p = 1u64;
    for _ in 0..19 {
        p = p.saturating_mul(10);
        segs.extend([p - 1, p, p.saturating_add(1)]);
    }
    segs.push(u64::MAX);
    segs.sort();
    segs.dedup();
    let mut seen: std::collections::HashMap<String, (usize, u64)> = std::collections::HashMap::new();
    let mut n = 0u64;
    let mut violation: Option<(String, String)> = None;
    let mut samples = vec![];
    let mut cap = None;
    // injectivity over the whole product is large: every topic x a reduced segment set for the
    // map, every topic x every segment for the round trip
    let inj_segs: Vec<u64> = vec![0, 1, 7, 10, 11, 100, u64::MAX];
    'outer: for (ti, t) in topics.iter().enumerate() {
        if t0.elapsed().as_secs_f64() > if thorough { 900.0 } else { 45.0 } {
            cap = Some(format!("time cap after {} of {} topics", ti, topics.len()));
            break;
        }
        for s in segs.iter() {
            n += 1;
            let r = catch_unwind(AssertUnwindSafe(|| {
                let k = wal_key(t, *s);
                (k.clone(), parse_wal_key(&k))
            }));
            match r {
                Err(_) => {
                    violation = Some((format!("wal_key({:?},{})", t, s), "panicked".into()));
                    break 'outer;
                }
                Ok((k, back)) => {
                    if back != Some((t.clone(), *s)) {
                        violation = Some((format!("wal_key({:?},{}) = {:?}", t, s, k), format!("parse_wal_key gives {:?}", back)));
                        break 'outer;
                    }
                    if inj_segs.contains(s) {
                        if let Some((oti, os)) = seen.insert(k.clone(), (ti, *s)) {
                            if (oti, os) != (ti, *s) {
                                violation = Some((
                                    format!("wal_key({:?},{}) and wal_key({:?},{})", t, s, topics[oti], os),
                                    format!("both map to the storage key {:?}", k),
                                ));
                                break 'outer;
                            }
                        }
                    }
                    if samples.len() < 5 && n % 100_003 == 1 {
                        samples.push(format!("({:?},{}) -> {:?}", t, s, k));
                    }
                }
            }
        }
    }
    let b = Bfs { states: seen.len() as u64, transitions: n, outcomes: HashSet::new(), samples, violation: None, cap, depth_done: maxlen };
    finish(
        "C25",
        "C25",
        tier,
        t0,
        &b,
        0,
        format!("every topic string of length 0..{} over {{t s _ 0 1 a}} plus 10 specials ({} topics) x {} segment numbers (0..N, 10^k-1, 10^k, 10^k+1, u64::MAX): parse_wal_key(wal_key(t,s)) == (t,s); the map is checked injective on all topics x 7 segment numbers (states = distinct keys seen)", maxlen, topics.len(), segs.len()),
        json!({"topics": topics.len(), "segments": segs.len()}),
        vec!["all u64 segment numbers are covered up to digit shape; the argument for the rest (the decimal rendering contains no '_', so the last \"_s_\" is always the separator) is not checked".into()],
        violation,
    )
}
