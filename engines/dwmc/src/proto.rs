//! C24: the client protocol stays frame-synchronised. Every sequence of frames (bounded
//! length) over a 15-frame alphabet is sent on one connection to the real client.rs accept
//! loop in front of a real single-node controller; the responses are compared one-for-one
//! with a reference model of the protocol.
use crate::cluster::{self, frame, parse_responses};
use crate::evidence::{self, Ev};
use serde::{Deserialize, Serialize};
use serde_json::json;
use std::collections::{HashMap, VecDeque};
use std::time::Instant;

const MAX_FRAME_LEN: usize = 64 * 1024;

#[derive(Clone, Debug, Serialize, Deserialize, PartialEq)]
pub enum F {
    Register,
    Put(u8), // payload variant
    Get,
    State,
    Metrics,
    Nope,
    PutIncomplete,
    ZeroLen,
    MaxLegal,
    Oversize,
    HugeNoBody,
    BadUtf8,
    GetUnknown,
}

const PAYLOADS: [&str; 8] = [
    "x",
    "a b",
    "x  ",
    "é✓",
    " x",
    "a\tb\nc",
    // command lines longer than 64 bytes with a two-byte character across / right behind byte 64
    "aaaaaaaaaaaaaaaaaaaaaaaaaaaaaaaaaaaaaaaaaaaaaaaaaaaaaaaaaé",
    "aaaaaaaaaaaaaaaaaaaaaaaaaaaaaaaaaaaaaaaaaaaaaaaaaaaaaaaaaaé",
];

fn bytes_of(f: &F) -> Vec<u8> {
    match f {
        F::Register => frame(b"REGISTER t"),
        F::Put(i) => frame(format!("PUT t {}", PAYLOADS[*i as usize]).as_bytes()),
        F::Get => frame(b"GET t"),
        F::State => frame(b"STATE t"),
        F::Metrics => frame(b"METRICS"),
        F::Nope => frame(b"NOPE"),
        F::PutIncomplete => frame(b"PUT t"),
        F::ZeroLen => vec![0, 0, 0, 0],
        F::MaxLegal => {
            let mut body = b"PUT t ".to_vec();
            body.resize(MAX_FRAME_LEN, b'y');
            frame(&body)
        }
        F::Oversize => {
            // announced length one over the limit, with its body: the body looks like frames
            let mut body: Vec<u8> = vec![];
            while body.len() + 9 <= MAX_FRAME_LEN + 1 {
                body.extend_from_slice(&frame(b"GET t"));
            }
            body.resize(MAX_FRAME_LEN + 1, b' ');
            let mut v = ((MAX_FRAME_LEN + 1) as u32).to_le_bytes().to_vec();
            v.extend_from_slice(&body);
            v
        }
        F::HugeNoBody => u32::MAX.to_le_bytes().to_vec(),
        F::BadUtf8 => frame(&[b'P', b'U', b'T', b' ', b't', b' ', 0xff, 0xfe]),
        F::GetUnknown => frame(b"GET nosuch"),
    }
}

/// Expected response classes per frame, by the reference model. A class is an exact
/// string, or "ERR*" (any error text), or "JSON*".
fn reference(frames: &[F]) -> Vec<String> {
    let mut out = vec![];
    let mut topic_exists = false;
    let mut q: VecDeque<String> = VecDeque::new();
    for f in frames {
        match f {
            F::Register => {
                topic_exists = true;
                out.push("OK".into());
            }
            F::Put(i) => {
                if topic_exists {
                    q.push_back(PAYLOADS[*i as usize].trim_end().to_string());
                    out.push("OK".into());
                } else {
                    out.push("ERR*".into());
                }
            }
            F::MaxLegal => {
                if topic_exists {
                    q.push_back("y".repeat(MAX_FRAME_LEN - 6));
                    out.push("OK".into());
                } else {
                    out.push("ERR*".into());
                }
            }
            F::Get => {
                if !topic_exists {
                    out.push("ERR*".into());
                } else if let Some(p) = q.pop_front() {
                    out.push(format!("OK {}", p));
                } else {
                    out.push("EMPTY".into());
                }
            }
            F::State => out.push(if topic_exists { "JSON*".into() } else { "ERR*".into() }),
            F::Metrics => out.push("JSON*".into()),
            F::Nope | F::PutIncomplete | F::ZeroLen | F::BadUtf8 | F::GetUnknown | F::Oversize => out.push("ERR*".into()),
            F::HugeNoBody => {
                // everything after the length prefix is the (never completed) body of this frame
                out.push("ERR*".into());
                return out;
            }
        }
    }
    out
}

fn matches(class: &str, got: &str) -> bool {
    match class {
        "ERR*" => got.starts_with("ERR"),
        "JSON*" => got.starts_with('{'),
        exact => got == exact,
    }
}

fn run_case(dir: &std::path::Path, frames: &Vec<F>) -> Result<String, String> {
    std::env::remove_var("WALRUS_MAX_SEGMENT_ENTRIES");
    let cl = cluster::build(dir, 1, false);
    let mut input = vec![];
    for f in frames {
        input.extend_from_slice(&bytes_of(f));
    }
    let out = tokio::net::script_connection(&cluster::bind_of(0), input);
    let (_ds, quiet) = cluster::run(&cl, &[], false, 0, 200_000, |_, _| {});
    let resp = parse_responses(&out.lock().unwrap());
    drop(cl);
    if !quiet {
        return Ok(json!({"stuck": true, "responses": resp}).to_string());
    }
    Ok(json!({ "responses": resp }).to_string())
}

pub fn check_c24(tier: &str) -> i32 {
    let t0 = Instant::now();
    let thorough = tier == "thorough";
    let alpha = vec![
        F::Register,
        F::Put(0),
        F::Put(1),
        F::Put(2),
        F::Put(3),
        F::Put(4),
        F::Put(5),
        F::Put(6),
        F::Put(7),
        F::Get,
        F::State,
        F::Metrics,
        F::Nope,
        F::PutIncomplete,
        F::ZeroLen,
        F::MaxLegal,
        F::Oversize,
        F::HugeNoBody,
        F::BadUtf8,
        F::GetUnknown,
    ];
    let maxlen = if thorough { 4 } else { 3 };
    let mut seqs: Vec<Vec<F>> = vec![];
    let mut cur: Vec<Vec<F>> = vec![vec![]];
    for d in 0..maxlen {
        let mut nxt = vec![];
        for s in cur.iter() {
            for a in alpha.iter() {
                // from depth 2 on, the topic is registered first (otherwise almost every
                // frame is answered with "unknown topic")
                let mut x = s.clone();
                x.push(a.clone());
                nxt.push(x);
            }
        }
        seqs.extend(nxt.iter().cloned());
        cur = nxt;
        let _ = d;
    }
    // the same sequences after a REGISTER
    let with_reg: Vec<Vec<F>> = seqs
        .iter()
        .filter(|s| s.len() < maxlen)
        .map(|s| {
            let mut x = vec![F::Register];
            x.extend(s.iter().cloned());
            x
        })
        .collect();
    seqs.extend(with_reg);
    seqs.sort_by_key(|s| s.len());
    seqs.dedup();
    let (outs, cap, errors) = cluster::in_children(&seqs, 120, if thorough { 1000.0 } else { 50.0 }, &|dir, s| run_case(dir, s));
    let mut n = 0u64;
    let mut ok = 0u64;
    let mut bad: Vec<(Vec<F>, String)> = vec![];
    let mut known: Vec<(Vec<F>, String)> = vec![];
    let mut samples = vec![];
    let mut outcome_set = std::collections::HashSet::new();
    for (s, o) in seqs.iter().zip(outs.iter()) {
        let Some(o) = o else { continue };
        n += 1;
        let v: serde_json::Value = serde_json::from_str(o).unwrap_or(json!({}));
        if v["panic"] == true {
            bad.push((s.clone(), "the server panicked".into()));
            continue;
        }
        let got: Vec<String> = v["responses"].as_array().map(|a| a.iter().map(|x| x.as_str().unwrap_or("").to_string()).collect()).unwrap_or_default();
        let want = reference(s);
        outcome_set.insert(got.iter().map(|g| g.chars().take(12).collect::<String>()).collect::<Vec<_>>().join("|"));
        let mut diverge: Option<String> = None;
        if v["stuck"] == true {
            diverge = Some("the connection task did not come to rest".into());
        } else if got.len() != want.len() {
            diverge = Some(format!("{} frames were sent but {} responses came back: {:?}", want.len(), got.len(), got.iter().map(|g| g.chars().take(30).collect::<String>()).collect::<Vec<_>>()));
        } else {
            for (i, (w, g)) in want.iter().zip(got.iter()).enumerate() {
                if !matches(w, g) {
                    diverge = Some(format!("frame #{} ({:?}) was answered {:?}, expected {:?}", i, s[i], g.chars().take(40).collect::<String>(), w.chars().take(40).collect::<String>()));
                    break;
                }
            }
        }
        match diverge {
            None => {
                ok += 1;
                if samples.len() < 6 && ok % 397 == 1 {
                    samples.push(format!("{:?} -> {:?}", s, got.iter().map(|g| g.chars().take(20).collect::<String>()).collect::<Vec<_>>()));
                }
            }
            Some(d) => {
                // known finding: the first divergence is at or after an oversized frame, whose
                // announced body the server does not consume
                let first_oversize = s.iter().position(|f| matches!(f, F::Oversize | F::HugeNoBody));
                let before_ok = first_oversize.map(|p| want.iter().zip(got.iter()).take(p + 1).all(|(w, g)| matches(w, g))).unwrap_or(false);
                if first_oversize.is_some() && before_ok {
                    known.push((s.clone(), d));
                } else {
                    bad.push((s.clone(), d));
                }
            }
        }
    }
    let known_title = crate::known_open("K-C24-oversize-desync", "C24");
    let mut known_line = None;
    if !known.is_empty() {
        match &known_title {
            Some(t) => known_line = Some(format!("KNOWN-FINDING: property=C24 {} [K-C24-oversize-desync] e.g. {:?} -> {}", t, known[0].0, known[0].1)),
            None => bad.extend(known.drain(..)),
        }
    }
    let ev = Ev {
        prop: "C24".into(),
        tier: tier.into(),
        states: ok,
        transitions: n,
        traces: n,
        samples,
        exhaustive: cap.is_none(),
        cap,
        rule: format!("every sequence of 1..{} frames over a 20-frame alphabet (REGISTER, 8 PUT payloads incl. leading and trailing blanks, inner blank / tab / newline, non-ASCII, and command lines longer than 64 bytes with a two-byte character across / behind byte 64, GET, STATE, METRICS, unknown command, incomplete PUT, zero length, largest legal length with body, length one over the limit with a frame-shaped body, length 2^32-1 without body, invalid UTF-8, GET on an unknown topic), and the same sequences of length < {} after a REGISTER, each sent on one connection to the real client.rs accept loop in front of a real single-node controller; states = sequences whose responses matched the reference model one-for-one", maxlen, maxlen),
        extra: json!({"sequences": seqs.len(), "pruned_behind_known_finding": known.len(), "machinery_errors": errors.iter().take(3).collect::<Vec<_>>()}),
        assumptions: vec![
            "tokio stand-in: a scripted in-memory socket delivers the whole client byte stream; read_exact semantics make the split of the stream into TCP segments unobservable, so partial reads are not enumerated".into(),
            "single-node cluster on the SimRaft stand-in (proposals apply immediately)".into(),
        ],
        violations: bad.len() as u64,
        wall: t0.elapsed().as_secs_f64(),
        outcomes: outcome_set.len() as u64,
    };
    evidence::write(&ev, "C24");
    println!("C24 {}: sequences={} executed={} matched={} known={} outcomes={} wall={:.1}s", tier, seqs.len(), n, ok, known.len(), outcome_set.len(), ev.wall);
    for e in errors.iter().take(3) {
        eprintln!("machinery: {}", e);
    }
    if let Some(l) = known_line {
        println!("{}", l);
    }
    if !bad.is_empty() {
        for (s, d) in bad.iter().take(4) {
            let path = evidence::replay("C24", json!({"property":"C24","engine":"dwmc-proto","frames":s,"detail":d}));
            println!("VIOLATION property=C24 replay={}", path);
            println!("  {:?} :: {}", s, d);
        }
        return 1;
    }
    if n == 0 {
        return 2;
    }
    0
}
