//! Cuts the peer-address-book functions out of octopii/src/openraft/node.rs (the file as a
//! whole needs openraft's core and the QUIC transport, which cannot be built offline) and
//! writes them, unchanged, next to a small shim that supplies the three fields they use.
//! If one of the items cannot be found the build fails: a machinery error, never a verdict.
use std::io::Write;

fn item(src: &str, marker: &str) -> String {
    let start = src.find(marker).unwrap_or_else(|| panic!("node.rs: `{}` not found", marker));
    let open = start + src[start..].find('{').expect("no body");
    let mut depth = 0usize;
    for (i, c) in src[open..].char_indices() {
        match c {
            '{' => depth += 1,
            '}' => {
                depth -= 1;
                if depth == 0 {
                    return src[start..open + i + 1].to_string();
                }
            }
            _ => {}
        }
    }
    panic!("node.rs: unbalanced braces after `{}`", marker);
}

fn main() {
    let path = "/repo/octopii/src/openraft/node.rs";
    println!("cargo:rerun-if-changed={}", path);
    let src = std::fs::read_to_string(path).expect("read node.rs");
    let rec = item(&src, "struct PeerAddrRecord");
    let load = item(&src, "async fn load_peer_addr_records");
    let append = item(&src, "async fn append_peer_addr_record");
    let persist = item(&src, "async fn persist_peer_addr_if_needed");
    let out = std::path::Path::new(&std::env::var("OUT_DIR").unwrap()).join("node_extract.rs");
    let mut f = std::fs::File::create(out).unwrap();
    writeln!(f, "#[derive(Serialize, Deserialize)]\n{}\n\n{}\n\n{}\n\nimpl OpenRaftNode {{\n{}\n}}", rec, load, append, persist).unwrap();
}
