//! C20(b): snapshot transfer through the Raft state-machine adapter (MemStateMachine), and
//! the address-book part of C21 at the WriteAheadLog seam.
use crate::*;
use bytes::Bytes;
use ocmc::state_machine::{StateMachine, StateMachineTrait};
use std::sync::Mutex;

/// Recording application state machine: state = list of applied commands.
pub struct RecSm {
    pub applied: Mutex<Vec<Vec<u8>>>,
}
impl RecSm {
    pub fn new() -> Arc<Self> {
        Arc::new(RecSm { applied: Mutex::new(vec![]) })
    }
}
impl StateMachineTrait for RecSm {
    fn apply(&self, command: &[u8]) -> std::result::Result<Bytes, String> {
        self.applied.lock().unwrap().push(command.to_vec());
        Ok(Bytes::from(format!("ok{}", self.applied.lock().unwrap().len())))
    }
    fn snapshot(&self) -> Vec<u8> {
        bincode::serialize(&*self.applied.lock().unwrap()).unwrap()
    }
    fn restore(&self, data: &[u8]) -> std::result::Result<(), String> {
        let v: Vec<Vec<u8>> = bincode::deserialize(data).map_err(|e| e.to_string())?;
        *self.applied.lock().unwrap() = v;
        Ok(())
    }
}

fn entry(i: u64, kind: u8) -> Entry<AppTypeConfig> {
    let payload = match kind {
        0 => EntryPayload::Normal(AppEntry(format!("cmd{}", i).into_bytes())),
        1 => EntryPayload::Blank,
        _ => EntryPayload::Membership(Membership { configs: vec![[1u64, 2, 3].into_iter().collect()] }),
    };
    Entry { log_id: lid(1, i), payload }
}

fn apply_chunks(sm: &mut Arc<MemStateMachine>, entries: &[Entry<AppTypeConfig>], chunk: usize) -> Result<(), String> {
    for ch in entries.chunks(chunk.max(1)) {
        let items: Vec<Result<EntryResponder<AppTypeConfig>, std::io::Error>> = ch.iter().map(|e| Ok((e.clone(), None))).collect();
        tokio::block_on(sm.apply(futures::stream::iter(items))).map_err(|e| e.to_string())?;
    }
    Ok(())
}

/// one (kinds, cut, chunking) case; returns a divergence description
fn case(kinds: &[u8], cut: usize, chunk: usize) -> Option<String> {
    let entries: Vec<Entry<AppTypeConfig>> = kinds.iter().enumerate().map(|(i, k)| entry(i as u64 + 1, *k)).collect();
    let normal_prefix = |n: usize| -> Vec<Vec<u8>> {
        entries[..n].iter().filter_map(|e| if let EntryPayload::Normal(d) = &e.payload { Some(d.0.clone()) } else { None }).collect()
    };
    let s_rec = RecSm::new();
    let mut sender = MemStateMachine::new(s_rec.clone() as StateMachine);
    if let Err(e) = apply_chunks(&mut sender, &entries[..cut], chunk) {
        return Some(format!("sender apply failed: {}", e));
    }
    // forwarding rule: exactly the Normal payloads, once, in order
    if *s_rec.applied.lock().unwrap() != normal_prefix(cut) {
        return Some(format!("the adapter forwarded {:?} to the state machine, expected the Normal payloads {:?}", s_rec.applied.lock().unwrap().len(), normal_prefix(cut).len()));
    }
    let snap = match tokio::block_on(sender.build_snapshot()) {
        Ok(s) => s,
        Err(e) => return Some(format!("build_snapshot failed: {}", e)),
    };
    let (applied, _mem) = tokio::block_on(sender.applied_state()).unwrap();
    if snap.meta.last_log_id != applied {
        return Some(format!("snapshot meta says last_log_id {:?} but the sender applied {:?}", snap.meta.last_log_id.map(|l| l.index), applied.map(|l| l.index)));
    }
    let r_rec = RecSm::new();
    let mut receiver = MemStateMachine::new(r_rec.clone() as StateMachine);
    if let Err(e) = tokio::block_on(receiver.install_snapshot(&snap.meta, snap.snapshot)) {
        return Some(format!("install_snapshot failed: {}", e));
    }
    let (rapplied, rmem) = tokio::block_on(receiver.applied_state()).unwrap();
    if rapplied != snap.meta.last_log_id || rmem != snap.meta.last_membership {
        return Some("receiver's applied_state differs from the snapshot meta".into());
    }
    if *r_rec.applied.lock().unwrap() != *s_rec.applied.lock().unwrap() {
        return Some(format!(
            "after installing the snapshot built at entry {}, the receiver's application state holds {} commands but the sender's holds {}",
            cut,
            r_rec.applied.lock().unwrap().len(),
            s_rec.applied.lock().unwrap().len()
        ));
    }
    // Raft ships snapshots to followers from get_current_snapshot(), not from the value
    // build_snapshot returned: after a *second* build further on, the stored snapshot must be
    // that second one, state and label alike
    for cut2 in (cut + 1)..=entries.len() {
        let s2_rec = RecSm::new();
        let mut sender2 = MemStateMachine::new(s2_rec.clone() as StateMachine);
        if apply_chunks(&mut sender2, &entries[..cut], chunk).is_err() || tokio::block_on(sender2.build_snapshot()).is_err() {
            return Some("second-build case: set-up failed".into());
        }
        if let Err(e) = apply_chunks(&mut sender2, &entries[cut..cut2], chunk) {
            return Some(format!("second-build case: apply failed: {}", e));
        }
        let built = match tokio::block_on(sender2.build_snapshot()) {
            Ok(s) => s,
            Err(e) => return Some(format!("second build_snapshot failed: {}", e)),
        };
        let stored = match tokio::block_on(sender2.get_current_snapshot()) {
            Ok(Some(s)) => s,
            Ok(None) => return Some("get_current_snapshot returned None after two builds".into()),
            Err(e) => return Some(format!("get_current_snapshot failed: {}", e)),
        };
        if stored.meta != built.meta {
            return Some(format!("after a second build at entry {} the stored snapshot is labelled {:?} but the build returned {:?}", cut2, stored.meta.last_log_id.map(|l| l.index), built.meta.last_log_id.map(|l| l.index)));
        }
        let r2_rec = RecSm::new();
        let mut receiver2 = MemStateMachine::new(r2_rec.clone() as StateMachine);
        if let Err(e) = tokio::block_on(receiver2.install_snapshot(&stored.meta, stored.snapshot)) {
            return Some(format!("install of the stored snapshot failed: {}", e));
        }
        if *r2_rec.applied.lock().unwrap() != *s2_rec.applied.lock().unwrap() {
            return Some(format!(
                "snapshots built at entries {} and {}: a receiver fed from get_current_snapshot() holds {} commands but the sender holds {} (the stored snapshot carries a new label over old state)",
                cut,
                cut2,
                r2_rec.applied.lock().unwrap().len(),
                s2_rec.applied.lock().unwrap().len()
            ));
        }
    }
    // same suffix on both
    if let Err(e) = apply_chunks(&mut sender, &entries[cut..], chunk) {
        return Some(format!("sender suffix failed: {}", e));
    }
    if let Err(e) = apply_chunks(&mut receiver, &entries[cut..], chunk) {
        return Some(format!("receiver suffix failed: {}", e));
    }
    if *r_rec.applied.lock().unwrap() != *s_rec.applied.lock().unwrap() {
        return Some("sender and receiver diverge after applying the same suffix".into());
    }
    let a = tokio::block_on(sender.applied_state()).unwrap();
    let b = tokio::block_on(receiver.applied_state()).unwrap();
    if a != b {
        return Some("applied_state diverges after the same suffix".into());
    }
    None
}

/// Snapshot building racing with an apply batch on the sender: openraft runs the snapshot
/// builder in its own task, so every interleaving of `build_snapshot` with `apply` at their
/// lock acquisitions (the scheduling points of the tokio stand-in) is executed. Whatever log
/// id the snapshot claims, a receiver that installs it must hold the application state as of
/// exactly that log id. Returns (schedules executed, first divergence).
fn race_case(kinds: &[u8], cut: usize, k: usize) -> (u64, Option<String>) {
    let entries: Vec<Entry<AppTypeConfig>> = kinds.iter().enumerate().map(|(i, k)| entry(i as u64 + 1, *k)).collect();
    let normal_prefix = |n: usize| -> Vec<Vec<u8>> {
        entries[..n].iter().filter_map(|e| if let EntryPayload::Normal(d) = &e.payload { Some(d.0.clone()) } else { None }).collect()
    };
    let mut work: Vec<Vec<usize>> = vec![vec![]];
    let mut n = 0u64;
    while let Some(prefix) = work.pop() {
        n += 1;
        tokio::sim::reset();
        let s_rec = RecSm::new();
        let mut sender = MemStateMachine::new(s_rec.clone() as StateMachine);
        if let Err(e) = apply_chunks(&mut sender, &entries[..cut], 7) {
            tokio::sim::shutdown();
            return (n, Some(format!("sender apply failed: {}", e)));
        }
        let batch: Vec<Entry<AppTypeConfig>> = entries[cut..(cut + k).min(entries.len())].to_vec();
        let snap_out: Arc<Mutex<Option<Result<Snapshot<AppTypeConfig>, String>>>> = Arc::new(Mutex::new(None));
        let apply_out: Arc<Mutex<Option<Result<(), String>>>> = Arc::new(Mutex::new(None));
        let mut a = sender.clone();
        let ao = apply_out.clone();
        tokio::sim::spawn_named("apply", async move {
            let items: Vec<Result<EntryResponder<AppTypeConfig>, std::io::Error>> = batch.iter().map(|e| Ok((e.clone(), None))).collect();
            let r = a.apply(futures::stream::iter(items)).await.map_err(|e| e.to_string());
            *ao.lock().unwrap() = Some(r);
        });
        let mut b = sender.clone();
        let so = snap_out.clone();
        tokio::sim::spawn_named("build_snapshot", async move {
            let r = b.build_snapshot().await.map_err(|e| e.to_string());
            *so.lock().unwrap() = Some(r);
        });
        let mut decisions: Vec<usize> = vec![];
        let mut steps = 0;
        loop {
            let ready = tokio::sim::ready_tasks();
            if ready.is_empty() {
                break;
            }
            let c = prefix.get(decisions.len()).copied().unwrap_or(0);
            if c >= ready.len() {
                tokio::sim::shutdown();
                return (n, Some(format!("internal: schedule prefix {:?} does not replay", prefix)));
            }
            decisions.push(ready.len());
            tokio::sim::step(ready[c]);
            steps += 1;
            if steps > 1000 {
                break;
            }
        }
        for i in prefix.len()..decisions.len() {
            for alt in 1..decisions[i] {
                let mut p: Vec<usize> = prefix.clone();
                p.resize(i, 0);
                p.push(alt);
                work.push(p);
            }
        }
        let desc = format!("entries {:?}, {} applied, then apply of {} entries || build_snapshot, schedule {:?}", kinds, cut, k, prefix);
        let snap = snap_out.lock().unwrap().take();
        let applied = apply_out.lock().unwrap().take();
        tokio::sim::shutdown();
        let (Some(Ok(snap)), Some(Ok(()))) = (snap, applied) else {
            return (n, Some(format!("{}: a task did not finish (deadlock) or failed", desc)));
        };
        let claimed = snap.meta.last_log_id.map(|l| l.index as usize).unwrap_or(0);
        let r_rec = RecSm::new();
        let mut receiver = MemStateMachine::new(r_rec.clone() as StateMachine);
        if let Err(e) = tokio::block_on(receiver.install_snapshot(&snap.meta, snap.snapshot)) {
            return (n, Some(format!("{}: install_snapshot failed: {}", desc, e)));
        }
        if *r_rec.applied.lock().unwrap() != normal_prefix(claimed) {
            return (
                n,
                Some(format!(
                    "{}: the snapshot claims log index {} but carries the application state of {} commands (expected {}): a receiver installing it never sees the difference",
                    desc,
                    claimed,
                    r_rec.applied.lock().unwrap().len(),
                    normal_prefix(claimed).len()
                )),
            );
        }
    }
    (n, None)
}

pub fn check_c20b(tier: &str) -> i32 {
    let t0 = Instant::now();
    let thorough = tier == "thorough";
    let maxlen = if thorough { 7 } else { 5 };
    let mut n = 0u64;
    let mut samples = vec![];
    let mut bad: Option<(String, String)> = None;
    let mut seqs: Vec<Vec<u8>> = vec![vec![]];
    let mut cur: Vec<Vec<u8>> = vec![vec![]];
    for _ in 0..maxlen {
        let mut nxt = vec![];
        for s in cur.iter() {
            for k in 0..3u8 {
                let mut x = s.clone();
                x.push(k);
                nxt.push(x);
            }
        }
        seqs.extend(nxt.iter().cloned());
        cur = nxt;
    }
    'outer: for kinds in seqs.iter() {
        for cut in 0..=kinds.len() {
            for chunk in [1usize, 2, 7] {
                n += 1;
                if let Some(d) = case(kinds, cut, chunk) {
                    bad = Some((format!("entries {:?} (0=normal,1=blank,2=membership), snapshot after {}, chunks of {}", kinds, cut, chunk), d));
                    break 'outer;
                }
                if samples.len() < 5 && n % 997 == 1 {
                    samples.push(format!("kinds {:?} cut {} chunk {}", kinds, cut, chunk));
                }
            }
        }
    }
    // snapshot building racing with an apply batch
    let mut race_schedules = 0u64;
    if bad.is_none() {
        let rmax = if thorough { 5 } else { 4 };
        'race: for kinds in seqs.iter().filter(|k| !k.is_empty() && k.len() <= rmax) {
            for cut in 0..kinds.len() {
                for k in 1..=2usize {
                    let (m, d) = race_case(kinds, cut, k);
                    race_schedules += m;
                    n += 1;
                    if let Some(d) = d {
                        bad = Some((format!("entries {:?} (0=normal,1=blank,2=membership), apply of {} entries racing with build_snapshot after {}", kinds, k, cut), d));
                        break 'race;
                    }
                }
            }
        }
    }
    let wall = t0.elapsed().as_secs_f64();
    // known finding?
    let mut known_line = None;
    if let Some((h, d)) = &bad {
        if d.contains("receiver's application state holds") {
            if let Some(title) = known_open("K-C20-adapter-snapshot-empty", "C20") {
                known_line = Some(format!("KNOWN-FINDING: property=C20 {} [K-C20-adapter-snapshot-empty] e.g. {} -> {}", title, h, d));
            }
        }
    }
    write_evidence(
        "C20b",
        tier,
        n,
        n,
        samples,
        bad.is_none(),
        None,
        format!("every entry sequence of length 0..{} over {{Normal, Blank, Membership}} x every snapshot point x chunkings {{1,2,7}} through the real MemStateMachine adapter (apply / build_snapshot / install_snapshot / applied_state / get_current_snapshot after a second build at every later cut) wrapping a recording state machine; plus, for sequences up to {}, every interleaving (at the lock acquisitions) of build_snapshot with an apply batch of 1..2 entries at every cut: {} schedules", maxlen, if thorough { 5 } else { 4 }, race_schedules),
        vec!["openraft/futures/bincode stand-ins; a recording state machine stands for the application metadata"],
        (bad.is_some() && known_line.is_none()) as u64,
        wall,
        json!({"part": "b (adapter)"}),
    );
    println!("C20b {}: cases={} wall={:.1}s", tier, n, wall);
    if let Some(l) = known_line {
        println!("{}", l);
        return 0;
    }
    if let Some((h, d)) = bad {
        let path = replay_file("C20", json!({"property":"C20","engine":"ocmc-adapter","case":h,"detail":d}));
        println!("VIOLATION property=C20 replay={}", path);
        println!("  {} :: {}", h, d);
        return 1;
    }
    0
}

#[derive(Serialize, Deserialize, Clone, Debug, PartialEq)]
struct PeerRec {
    peer_id: u64,
    addr: String,
}

/// Address book through the functions of octopii/src/openraft/node.rs themselves (cut out of
/// the file by build.rs, see nodebook.rs). `pattern`: per step 0 = a peer gets a new address,
/// 3 = a peer's current address is asserted again (no change), 1 = stop + start, 2 = kill +
/// start. After every start the book must hold the last acknowledged address of every peer.
pub fn address_book_history(dir: &Path, pattern: &Vec<u8>) -> Result<Option<String>, String> {
    use ocmc::nodebook::OpenRaftNode;
    use std::net::SocketAddr;
    let _ = std::fs::remove_dir_all(dir);
    std::fs::create_dir_all(dir).map_err(|e| e.to_string())?;
    let open = || -> Result<OpenRaftNode, String> { tokio::block_on(OpenRaftNode::open(dir)).map_err(|e| e.to_string()) };
    let mut node = open()?;
    let mut model: BTreeMap<u64, SocketAddr> = BTreeMap::new();
    let mut shadow: BTreeMap<u64, SocketAddr> = BTreeMap::new();
    let mut restarts = 0usize;
    let mut k = 0u64;
    let mut steps: Vec<u8> = pattern.clone();
    steps.push(1); // always end with a restart
    for (i, s) in steps.iter().enumerate() {
        match s {
            0 | 3 => {
                let peer = if *s == 3 { 1 } else { k % 2 + 1 };
                let addr: SocketAddr = if *s == 3 {
                    match model.get(&peer) {
                        Some(a) => *a,
                        None => format!("10.0.0.{}:70{:02}", k, k).parse().unwrap(),
                    }
                } else {
                    format!("10.0.0.{}:70{:02}", k, k).parse().unwrap()
                };
                if *s == 0 {
                    k += 1;
                }
                if let Err(e) = tokio::block_on(node.update_peer_addr(peer, addr)) {
                    return Ok(Some(format!("address update failed at step {}: {}", i, e)));
                }
                if model.get(&peer) != Some(&addr) {
                    shadow.insert(peer, addr);
                }
                model.insert(peer, addr);
                let now = tokio::block_on(node.book());
                if now != model {
                    return Ok(Some(format!("after step {} the running node's address book is {:?} but the acknowledged updates give {:?}", i, now, model)));
                }
            }
            _ => {
                if *s == 2 {
                    std::mem::forget(node);
                } else {
                    drop(node);
                }
                node = open()?;
                let got = tokio::block_on(node.book());
                if got != model {
                    let tag = if restarts >= 1 && got == shadow { "[suffix-only-after-second-restart] " } else { "" };
                    return Ok(Some(format!("{}after restart at step {} the address book is {:?} but the acknowledged records give {:?}", tag, i, got, model)));
                }
                restarts += 1;
                shadow.clear();
            }
        }
    }
    Ok(None)
}
