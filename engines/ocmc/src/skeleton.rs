//! C19 (reduced scope): a fixed-leader replication skeleton written in this harness drives
//! three real WAL-backed log stores. openraft's core and octopii's transport cannot be
//! compiled offline, so elections, term changes and log conflicts are NOT explored; what is
//! explored exhaustively (BFS, states de-duplicated) is every interleaving of proposals,
//! per-follower deliveries (loss = not delivering), commits, commit learning, applies and
//! clean / killed restarts within the bounds, with every store effect taken from the real
//! store: a node's view after a start is what the reopened WalLogStore reports for that
//! node's exact operation history (memoised per distinct history).
use crate::*;
use std::collections::{HashMap, VecDeque};

#[derive(Clone, Debug, PartialEq, Eq, Hash, Serialize, Deserialize)]
pub enum NOp {
    Append(u64),
    Commit(u64),
    Restart(bool), // true = killed
}

#[derive(Clone, Debug, PartialEq, Eq, Hash)]
struct View {
    entries: Vec<u64>, // indices held, ascending (payload of index i is "cmd i")
    committed: Option<u64>,
}

#[derive(Clone, Debug, PartialEq, Eq, Hash)]
struct Node {
    hist: Vec<NOp>,
    view: View,
    applied: Vec<u64>,
    restarts: u8,
}

#[derive(Clone, Debug, PartialEq, Eq, Hash)]
struct State {
    nodes: Vec<Node>,
    /// indices whose proposal was reported successful (committed on a majority)
    acked: Vec<u64>,
    proposals: u8,
}

#[derive(Clone, Debug, PartialEq, Eq, Hash, Serialize)]
enum Act {
    Propose,
    Deliver(usize),
    Commit,
    Learn(usize),
    Apply(usize),
    Stop(usize),
    Kill(usize),
}

/// What the real store reports after executing `hist` (ending in a restart) on a fresh
/// directory. Runs in a forked child (instances leak threads).
fn real_view(hist: &[NOp]) -> Result<View, String> {
    let items = vec![hist.to_vec()];
    let out: std::sync::Mutex<Option<String>> = std::sync::Mutex::new(None);
    let (_e, _s, bad, _c, errs) = in_children(&items, 1, 60.0, &|dir, h: &Vec<NOp>| {
        let _ = std::fs::remove_dir_all(dir);
        std::fs::create_dir_all(dir).map_err(|e| e.to_string())?;
        let (mut wal, mut st) = open_store(dir)?;
        for op in h.iter() {
            match op {
                NOp::Append(i) => {
                    let e = Entry { log_id: lid(1, *i), payload: EntryPayload::Normal(AppEntry(format!("cmd {}", i).into_bytes())) };
                    tokio::block_on(st.append(vec![e], IOFlushed::new())).map_err(|e| e.to_string())?;
                }
                NOp::Commit(c) => {
                    tokio::block_on(st.save_committed(Some(lid(1, *c)))).map_err(|e| e.to_string())?;
                }
                NOp::Restart(killed) => {
                    if *killed {
                        std::mem::forget(st);
                        std::mem::forget(wal);
                    } else {
                        drop(st);
                        drop(wal);
                    }
                    let (w2, s2) = open_store(dir)?;
                    wal = w2;
                    st = s2;
                }
            }
        }
        let es = tokio::block_on(st.try_get_log_entries(0..u64::MAX)).map_err(|e| e.to_string())?;
        let c = tokio::block_on(st.read_committed()).map_err(|e| e.to_string())?;
        // smuggle the view out through the "divergence" channel
        Ok(Some(format!("{:?}|{:?}", es.iter().map(|e| e.log_id.index).collect::<Vec<_>>(), c.map(|c| c.index))))
    });
    let _ = out;
    if let Some((_, d)) = bad.first() {
        let mut parts = d.split('|');
        let es: Vec<u64> = parts
            .next()
            .unwrap_or("[]")
            .trim_matches(|c| c == '[' || c == ']')
            .split(',')
            .filter_map(|x| x.trim().parse().ok())
            .collect();
        let c = parts.next().unwrap_or("None");
        let committed = c.strip_prefix("Some(").and_then(|x| x.strip_suffix(')')).and_then(|x| x.parse().ok());
        return Ok(View { entries: es, committed });
    }
    Err(format!("store execution failed: {:?}", errs))
}

fn last(v: &View) -> Option<u64> {
    v.entries.last().copied()
}

fn is_prefix(a: &[u64], b: &[u64]) -> bool {
    a.len() <= b.len() && b[..a.len()] == *a
}

struct Explorer {
    memo: HashMap<Vec<NOp>, View>,
    real_calls: u64,
    max_proposals: u8,
    max_restarts_per_node: u8,
    max_total_restarts: u8,
}

impl Explorer {
    fn step(&mut self, s: &State, a: &Act) -> Result<Option<State>, String> {
        let mut t = s.clone();
        match a {
            Act::Propose => {
                if s.proposals >= self.max_proposals {
                    return Ok(None);
                }
                let idx = last(&s.nodes[0].view).map(|l| l + 1).unwrap_or(1);
                t.nodes[0].hist.push(NOp::Append(idx));
                t.nodes[0].view.entries.push(idx);
                t.proposals += 1;
            }
            Act::Deliver(n) => {
                let next = last(&s.nodes[*n].view).map(|l| l + 1).unwrap_or(1);
                if !s.nodes[0].view.entries.contains(&next) {
                    return Ok(None);
                }
                t.nodes[*n].hist.push(NOp::Append(next));
                t.nodes[*n].view.entries.push(next);
            }
            Act::Commit => {
                // highest index stored on a majority
                let mut best: Option<u64> = None;
                for idx in s.nodes[0].view.entries.iter() {
                    let holders = s.nodes.iter().filter(|nd| nd.view.entries.contains(idx)).count();
                    if holders * 2 > s.nodes.len() {
                        best = Some(*idx);
                    }
                }
                match best {
                    Some(c) if s.nodes[0].view.committed.map(|x| c > x).unwrap_or(true) => {
                        t.nodes[0].hist.push(NOp::Commit(c));
                        t.nodes[0].view.committed = Some(c);
                        for i in 1..=c {
                            if !t.acked.contains(&i) && s.nodes[0].view.entries.contains(&i) {
                                t.acked.push(i);
                            }
                        }
                    }
                    _ => return Ok(None),
                }
            }
            Act::Learn(n) => {
                let Some(c) = s.nodes[0].view.committed else { return Ok(None) };
                let Some(l) = last(&s.nodes[*n].view) else { return Ok(None) };
                let c = c.min(l);
                if s.nodes[*n].view.committed.map(|x| c <= x).unwrap_or(false) {
                    return Ok(None);
                }
                t.nodes[*n].hist.push(NOp::Commit(c));
                t.nodes[*n].view.committed = Some(c);
            }
            Act::Apply(n) => {
                let Some(c) = s.nodes[*n].view.committed else { return Ok(None) };
                let from = s.nodes[*n].applied.len();
                let todo: Vec<u64> = s.nodes[*n].view.entries.iter().copied().filter(|i| *i <= c).skip(from).collect();
                if todo.is_empty() {
                    return Ok(None);
                }
                t.nodes[*n].applied.extend(todo);
            }
            Act::Stop(n) | Act::Kill(n) => {
                let total: u8 = s.nodes.iter().map(|x| x.restarts).sum();
                if s.nodes[*n].restarts >= self.max_restarts_per_node || total >= self.max_total_restarts {
                    return Ok(None);
                }
                t.nodes[*n].hist.push(NOp::Restart(matches!(a, Act::Kill(_))));
                t.nodes[*n].restarts += 1;
                let h = t.nodes[*n].hist.clone();
                let view = match self.memo.get(&h) {
                    Some(v) => v.clone(),
                    None => {
                        self.real_calls += 1;
                        let v = real_view(&h)?;
                        self.memo.insert(h, v.clone());
                        v
                    }
                };
                // the state machine is in memory: rebuilt by applying the recovered log up to
                // the recovered committed id
                t.nodes[*n].applied = match view.committed {
                    Some(c) => view.entries.iter().copied().filter(|i| *i <= c).collect(),
                    None => vec![],
                };
                t.nodes[*n].view = view;
            }
        }
        Ok(Some(t))
    }

    fn acts(&self, n: usize) -> Vec<Act> {
        let mut v = vec![Act::Propose, Act::Commit];
        for i in 1..n {
            v.push(Act::Deliver(i));
            v.push(Act::Learn(i));
        }
        for i in 0..n {
            v.push(Act::Apply(i));
            v.push(Act::Stop(i));
            v.push(Act::Kill(i));
        }
        v
    }

    /// fair continuation: deliver everything, commit, learn, apply everywhere
    fn quiesce(&mut self, s: &State) -> Result<State, String> {
        let mut cur = s.clone();
        loop {
            let mut progressed = false;
            let n = cur.nodes.len();
            let mut order: Vec<Act> = vec![];
            for i in 1..n {
                order.push(Act::Deliver(i));
            }
            order.push(Act::Commit);
            for i in 1..n {
                order.push(Act::Learn(i));
            }
            for i in 0..n {
                order.push(Act::Apply(i));
            }
            for a in order {
                if let Some(t) = self.step(&cur, &a)? {
                    cur = t;
                    progressed = true;
                }
            }
            if !progressed {
                return Ok(cur);
            }
        }
    }
}

fn check_state(s: &State) -> Option<String> {
    for i in 0..s.nodes.len() {
        for j in (i + 1)..s.nodes.len() {
            let (a, b) = (&s.nodes[i].applied, &s.nodes[j].applied);
            if !is_prefix(a, b) && !is_prefix(b, a) {
                return Some(format!("applied sequences of node {} {:?} and node {} {:?} are not prefix-related", i, a, j, b));
            }
        }
    }
    None
}

pub fn check_c19(tier: &str) -> i32 {
    let t0 = Instant::now();
    let thorough = tier == "thorough";
    let mut ex = Explorer {
        memo: HashMap::new(),
        real_calls: 0,
        max_proposals: if thorough { 3 } else { 2 },
        max_restarts_per_node: 2,
        max_total_restarts: if thorough { 3 } else { 2 },
    };
    let n = 3usize;
    let init = State {
        nodes: (0..n).map(|_| Node { hist: vec![], view: View { entries: vec![], committed: None }, applied: vec![], restarts: 0 }).collect(),
        acked: vec![],
        proposals: 0,
    };
    let cap_s = if thorough { 1000.0 } else { 50.0 };
    let max_depth = if thorough { 14 } else { 11 };
    let mut seen: HashSet<State> = HashSet::new();
    let mut q: VecDeque<(State, Vec<Act>)> = VecDeque::new();
    seen.insert(init.clone());
    q.push_back((init, vec![]));
    let mut states = 1u64;
    let mut transitions = 0u64;
    let mut bad: Option<(Vec<Act>, String, bool)> = None;
    let mut known_hits = 0u64;
    let mut cap: Option<String> = None;
    let mut samples: Vec<String> = vec![];
    let mut err: Option<String> = None;
    let known_title = known_open("K-C21-second-restart-empty", "C19");
    'bfs: while let Some((s, path)) = q.pop_front() {
        if t0.elapsed().as_secs_f64() > cap_s {
            cap = Some(format!("time cap {} s with {} states in the queue (depth {})", cap_s, q.len(), path.len()));
            break;
        }
        if path.len() >= max_depth {
            continue;
        }
        for a in ex.acts(n) {
            let t = match ex.step(&s, &a) {
                Ok(Some(t)) => t,
                Ok(None) => continue,
                Err(e) => {
                    err = Some(e);
                    break 'bfs;
                }
            };
            transitions += 1;
            let mut p2 = path.clone();
            p2.push(a.clone());
            // oracles: prefix relation now; after fair continuation every acknowledged
            // proposal is applied on every node
            let mut v = check_state(&t);
            if v.is_none() {
                match ex.quiesce(&t) {
                    Ok(qs) => {
                        v = check_state(&qs);
                        if v.is_none() {
                            for (ni, nd) in qs.nodes.iter().enumerate() {
                                for idx in qs.acked.iter() {
                                    if !nd.applied.contains(idx) {
                                        v = Some(format!("proposal {} was reported successful but node {} never applies it (applied {:?} after all messages were delivered)", idx, ni, nd.applied));
                                        break;
                                    }
                                }
                                if v.is_some() {
                                    break;
                                }
                            }
                        }
                    }
                    Err(e) => {
                        err = Some(e);
                        break 'bfs;
                    }
                }
            }
            if let Some(msg) = v {
                // known finding: some node has been restarted twice (its second start recovers
                // nothing of what was acknowledged before its first restart)
                let twice = t.nodes.iter().any(|nd| nd.restarts >= 2);
                if twice && known_title.is_some() {
                    known_hits += 1;
                    if known_hits == 1 {
                        println!("KNOWN-FINDING: property=C19 {} [K-C21-second-restart-empty] e.g. {:?} -> {}", known_title.clone().unwrap(), p2, msg);
                    }
                    continue; // pruned
                }
                bad = Some((p2, msg, twice));
                break 'bfs;
            }
            if seen.insert(t.clone()) {
                states += 1;
                if samples.len() < 5 && states % 1499 == 1 {
                    samples.push(format!("{:?}", p2));
                }
                q.push_back((t, p2));
            }
        }
    }
    let wall = t0.elapsed().as_secs_f64();
    write_evidence(
        "C19",
        tier,
        states,
        transitions,
        samples,
        cap.is_none() && err.is_none(),
        cap.clone(),
        format!("BFS over all interleavings (depth <= {}) of propose (<= {}), deliver(follower), commit, learn(follower), apply(node), stop/kill+start(node) (<= 2 per node, <= {} in total) on 3 nodes of a fixed-leader replication skeleton; a restarted node's log and committed id are what the real reopened WalLogStore reports for that node's exact history ({} distinct histories executed on the real store); states de-duplicated on (per-node history, view, applied list)", max_depth, ex.max_proposals, ex.max_total_restarts, ex.real_calls),
        vec![
            "REDUCED SCOPE: the consensus core (openraft), octopii's node.rs / network.rs and the QUIC transport cannot be compiled offline; a fixed-leader skeleton written in the harness stands in for them: no elections, no term changes, no log conflicts",
            "sees changes to octopii/src/openraft/storage.rs, octopii/src/wal/mod.rs and octopii's vendored engine copy; cannot see changes to openraft, node.rs, network.rs",
        ],
        bad.is_some() as u64,
        wall,
        json!({"real_store_executions": ex.real_calls, "pruned_behind_known_finding": known_hits}),
    );
    println!("C19 {}: states={} transitions={} real_store_runs={} pruned_known={} exhaustive={} wall={:.1}s", tier, states, transitions, ex.real_calls, known_hits, cap.is_none(), wall);
    if let Some(e) = err {
        eprintln!("machinery error: {}", e);
        return 2;
    }
    if let Some((p, msg, _)) = bad {
        let path = replay_file("C19", json!({"property":"C19","engine":"ocmc-skeleton","actions":p,"detail":msg}));
        println!("VIOLATION property=C19 replay={}", path);
        println!("  {:?} :: {}", p, msg);
        return 1;
    }
    0
}
