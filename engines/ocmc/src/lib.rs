#![allow(warnings)]
pub mod error {
    #[derive(Debug, thiserror::Error)]
    pub enum OctopiiError { #[error("IO error: {0}")] Io(#[from] std::io::Error), #[error("ser: {0}")] Serialization(#[from] bincode::Error), #[error("WAL error: {0}")] Wal(String), #[error("RPC error: {0}")] Rpc(String) }
    pub type Result<T> = std::result::Result<T, OctopiiError>;
}
#[path = "/repo/octopii/src/wal/mod.rs"] pub mod wal;
#[path = "/repo/octopii/src/state_machine.rs"] pub mod state_machine;
pub mod openraft {
    #[path = "/repo/octopii/src/openraft/storage.rs"] pub mod storage;
    #[path = "/repo/octopii/src/openraft/types.rs"] pub mod types;
}
pub mod nodebook;
