#![allow(warnings)]
//! ocmc: checks for octopii's WAL-backed Raft log store, address-book WAL and
//! state-machine adapter. The repository's files (octopii/src/openraft/storage.rs,
//! wal/mod.rs, state_machine.rs and octopii's vendored engine copy) are compiled
//! unmodified by #[path] against stand-in crates (see lib.rs).
use ocmc::openraft::storage::*;
use ocmc::openraft::types::*;
use ocmc::wal::WriteAheadLog;
use openraft::{storage::*, *};
use serde::{Deserialize, Serialize};
use serde_json::json;
use std::collections::{BTreeMap, HashSet};
use std::io::{BufRead, Write};
use std::os::unix::io::FromRawFd;
use std::path::{Path, PathBuf};
use std::sync::Arc;
use std::time::{Duration, Instant};

mod adapter;
mod skeleton;

fn lid(term: u64, i: u64) -> LogId<AppTypeConfig> {
    LogId { leader_id: LeaderId { term, node_id: 1 }, index: i }
}

#[derive(Clone, Debug, Serialize, Deserialize, PartialEq, Eq, Hash)]
pub enum SOp {
    /// append n entries at the next indices (payload kind cycles Blank / Normal)
    Append(u8),
    /// truncate from (last - back)
    Truncate(u8),
    /// purge up to (first + k)
    Purge(u8),
    /// purge up to an index behind everything the store holds (what openraft does after
    /// installing a snapshot on a follower whose log is short or empty): the log becomes
    /// empty and the next append starts behind the purge point
    PurgeAhead,
    Vote(u64),
    Commit(bool),
    /// clean drop of all handles, then reopen
    StopStart,
    /// forget the handles without running destructors, then reopen
    KillStart,
}

#[derive(Clone, Debug, Default, PartialEq)]
struct RefStore {
    log: BTreeMap<u64, (u64, Vec<u8>)>, // index -> (term, rendered payload)
    vote: Option<u64>,
    committed: Option<u64>,
    purged: Option<u64>,
    next: u64,
    term: u64,
}

fn render_payload(p: &EntryPayload<AppTypeConfig>) -> Vec<u8> {
    match p {
        EntryPayload::Blank => b"B".to_vec(),
        EntryPayload::Normal(d) => {
            let mut v = b"N".to_vec();
            v.extend_from_slice(&d.0);
            v
        }
        EntryPayload::Membership(m) => format!("M{:?}", m).into_bytes(),
    }
}

fn mk_entry(term: u64, i: u64) -> Entry<AppTypeConfig> {
    let payload = match i % 3 {
        0 => EntryPayload::Blank,
        1 => EntryPayload::Normal(AppEntry(format!("cmd-{}-{}", term, i).into_bytes())),
        _ => EntryPayload::Membership(Membership { configs: vec![[1u64, 2, 3].into_iter().collect()] }),
    };
    Entry { log_id: lid(term, i), payload }
}

/// observable state of a store, rendered canonically
fn observe(st: &mut WalLogStore) -> String {
    tokio::block_on(async {
        let ls = st.get_log_state().await;
        let v = st.read_vote().await;
        let c = st.read_committed().await;
        let es = st.try_get_log_entries(0..u64::MAX).await;
        format!(
            "state={:?} vote={:?} committed={:?} entries={:?}",
            ls.map(|l| (l.last_purged_log_id.map(|x| x.index), l.last_log_id.map(|x| x.index))).map_err(|e| e.to_string()),
            v.map(|v| v.map(|v| v.leader_id.term)).map_err(|e| e.to_string()),
            c.map(|c| c.map(|c| c.index)).map_err(|e| e.to_string()),
            es.map(|es| es.iter().map(|e| (e.log_id.index, e.log_id.leader_id.term, String::from_utf8_lossy(&render_payload(&e.payload)).to_string())).collect::<Vec<_>>())
                .map_err(|e| e.to_string())
        )
    })
}

fn expect(r: &RefStore) -> String {
    let last = r.log.keys().next_back().copied().or(r.purged);
    format!(
        "state={:?} vote={:?} committed={:?} entries={:?}",
        Ok::<_, String>((r.purged, last)),
        Ok::<_, String>(r.vote),
        Ok::<_, String>(r.committed),
        Ok::<_, String>(r.log.iter().map(|(i, (t, p))| (*i, *t, String::from_utf8_lossy(p).to_string())).collect::<Vec<_>>())
    )
}

pub fn open_store(dir: &Path) -> Result<(Arc<WriteAheadLog>, WalLogStore), String> {
    tokio::block_on(async {
        let wal = Arc::new(WriteAheadLog::new(dir.join("openraft_log"), 100, Duration::from_millis(100)).await.map_err(|e| e.to_string())?);
        let st = new_wal_log_store(wal.clone()).await.map_err(|e| e.to_string())?;
        Ok((wal, st))
    })
}

/// A multi-entry append killed between two of its WAL records (the process dies right before
/// the (k+1)-th engine call of the batch). The append never returned, so nothing of it is
/// acknowledged; what the reopened store may report is the acknowledged entries plus a
/// *prefix* of the batch - never an entry without its predecessors (a hole in the log makes
/// nodes apply different command sequences).
pub fn torn_append_case(dir: &Path, case: &(usize, usize, usize)) -> Result<Option<String>, String> {
    let (pre, n, k) = *case;
    let _ = std::fs::remove_dir_all(dir);
    std::fs::create_dir_all(dir).map_err(|e| e.to_string())?;
    let (wal, mut st) = open_store(dir)?;
    if pre > 0 {
        let es: Vec<Entry<AppTypeConfig>> = (0..pre as u64).map(|i| mk_entry(1, i)).collect();
        tokio::block_on(st.append(es, IOFlushed::new())).map_err(|e| e.to_string())?;
    }
    let batch: Vec<Entry<AppTypeConfig>> = (0..n as u64).map(|i| mk_entry(1, pre as u64 + i)).collect();
    tokio::task::kill_after_engine_calls(Some(k));
    let hook = std::panic::take_hook();
    std::panic::set_hook(Box::new(|_| {}));
    let r = std::panic::catch_unwind(std::panic::AssertUnwindSafe(|| tokio::block_on(st.append(batch, IOFlushed::new()))));
    std::panic::set_hook(hook);
    tokio::task::kill_after_engine_calls(None);
    match r {
        Ok(_) => return Err(format!("the append of {} entries made fewer than {} engine calls: the kill point was not reached", n, k + 1)),
        Err(p) => {
            if p.downcast_ref::<&str>().copied() != Some(tokio::task::KILL_MARK) {
                return Ok(Some(format!("append of {} entries panicked on its own before engine call {}", n, k + 1)));
            }
        }
    }
    std::mem::forget(st);
    std::mem::forget(wal);
    let (_w2, mut s2) = match open_store(dir) {
        Ok(x) => x,
        Err(e) => return Ok(Some(format!("reopen after the killed append failed: {}", e))),
    };
    let got: Vec<u64> = tokio::block_on(s2.try_get_log_entries(0..u64::MAX)).map_err(|e| e.to_string())?.iter().map(|e| e.log_id.index).collect();
    let ok = (0..=n).any(|j| got == (0..(pre + j) as u64).collect::<Vec<u64>>());
    if !ok {
        return Ok(Some(format!(
            "{} acknowledged entries, then an append of {} entries killed after {} of its WAL records: the reopened store holds indices {:?}, which is not the acknowledged log plus a prefix of the batch",
            pre, n, k, got
        )));
    }
    Ok(None)
}

/// Is `op` applicable in reference state r (preconditions of the storage API)?
fn applicable(r: &RefStore, op: &SOp) -> bool {
    match op {
        SOp::Truncate(back) => {
            let Some(last) = r.log.keys().next_back().copied() else { return false };
            last >= *back as u64 && r.log.contains_key(&(last - *back as u64)) && r.committed.map(|c| last - *back as u64 > c).unwrap_or(true)
        }
        SOp::Purge(k) => {
            let Some(first) = r.log.keys().next().copied() else { return false };
            r.log.contains_key(&(first + *k as u64))
        }
        SOp::Commit(true) => !r.log.is_empty(),
        // a committed id in front of the purge point makes no sense to openraft
        SOp::PurgeAhead => r.committed.is_none(),
        _ => true,
    }
}

/// Execute a history on the real store; returns Some(description) at the first divergence.
pub fn run_history(dir: &Path, ops: &[SOp]) -> Result<Option<String>, String> {
    let _ = std::fs::remove_dir_all(dir);
    std::fs::create_dir_all(dir).map_err(|e| e.to_string())?;
    let mut r = RefStore { term: 1, ..Default::default() };
    // what a store would hold if every restart forgot everything acknowledged before it
    let mut shadow = r.clone();
    let mut restarts = 0usize;
    let (mut wal, mut st) = open_store(dir)?;
    let o = observe(&mut st);
    if o != expect(&r) {
        return Ok(Some(format!("fresh store reports {} expected {}", o, expect(&r))));
    }
    for (i, op) in ops.iter().enumerate() {
        if !applicable(&r, op) {
            return Err("inapplicable".into());
        }
        let res: Result<(), String> = tokio::block_on(async {
            match op {
                SOp::Append(n) => {
                    let es: Vec<Entry<AppTypeConfig>> = (0..*n as u64).map(|k| mk_entry(r.term, r.next + k)).collect();
                    for e in es.iter() {
                        r.log.insert(e.log_id.index, (r.term, render_payload(&e.payload)));
                    }
                    r.next += *n as u64;
                    st.append(es, IOFlushed::new()).await.map_err(|e| e.to_string())
                }
                SOp::Truncate(back) => {
                    let last = r.log.keys().next_back().copied().unwrap();
                    let from = last - *back as u64;
                    let t = r.log.get(&from).unwrap().0;
                    let keys: Vec<u64> = r.log.range(from..).map(|(k, _)| *k).collect();
                    for k in keys {
                        r.log.remove(&k);
                    }
                    r.next = from;
                    r.term += 1; // a truncation happens under a new leader
                    st.truncate(lid(t, from)).await.map_err(|e| e.to_string())
                }
                SOp::Purge(k) => {
                    let first = r.log.keys().next().copied().unwrap();
                    let upto = first + *k as u64;
                    let t = r.log.get(&upto).unwrap().0;
                    let keys: Vec<u64> = r.log.range(..=upto).map(|(k, _)| *k).collect();
                    for k in keys {
                        r.log.remove(&k);
                    }
                    r.purged = Some(upto);
                    st.purge(lid(t, upto)).await.map_err(|e| e.to_string())
                }
                SOp::PurgeAhead => {
                    let upto = r.next + 1;
                    r.log.clear();
                    r.purged = Some(upto);
                    r.next = upto + 1;
                    st.purge(lid(r.term, upto)).await.map_err(|e| e.to_string())
                }
                SOp::Vote(t) => {
                    r.vote = Some(*t);
                    st.save_vote(&Vote { leader_id: LeaderId { term: *t, node_id: 1 }, committed: true }).await.map_err(|e| e.to_string())
                }
                SOp::Commit(some) => {
                    if *some {
                        let (i, (t, _)) = r.log.iter().next_back().map(|(i, v)| (*i, v.clone())).unwrap();
                        r.committed = Some(i);
                        st.save_committed(Some(lid(t, i))).await.map_err(|e| e.to_string())
                    } else {
                        r.committed = None;
                        st.save_committed(None).await.map_err(|e| e.to_string())
                    }
                }
                SOp::StopStart | SOp::KillStart => Ok(()),
            }
        });
        if let Err(e) = res {
            return Ok(Some(format!("op #{} {:?} returned an error: {}", i, op, e)));
        }
        // mirror the op on the shadow store (leniently: missing entries are ignored)
        match op {
            SOp::Append(n) => {
                for k in 0..*n as u64 {
                    let idx = r.next - *n as u64 + k;
                    if let Some(v) = r.log.get(&idx) {
                        shadow.log.insert(idx, v.clone());
                    }
                }
            }
            SOp::Truncate(_) => {
                let from = r.next;
                let keys: Vec<u64> = shadow.log.range(from..).map(|(k, _)| *k).collect();
                for k in keys {
                    shadow.log.remove(&k);
                }
            }
            SOp::Purge(_) => {
                if let Some(p) = r.purged {
                    let keys: Vec<u64> = shadow.log.range(..=p).map(|(k, _)| *k).collect();
                    for k in keys {
                        shadow.log.remove(&k);
                    }
                    shadow.purged = Some(p);
                }
            }
            SOp::PurgeAhead => {
                shadow.log.clear();
                shadow.purged = r.purged;
            }
            SOp::Vote(_) => shadow.vote = r.vote,
            SOp::Commit(_) => shadow.committed = r.committed,
            _ => {}
        }
        if matches!(op, SOp::StopStart | SOp::KillStart) {
            if matches!(op, SOp::KillStart) {
                std::mem::forget(st);
                std::mem::forget(wal);
            } else {
                drop(st);
                drop(wal);
            }
            let (w2, s2) = match open_store(dir) {
                Ok(x) => x,
                Err(e) => return Ok(Some(format!("reopen after op #{} failed: {}", i, e))),
            };
            wal = w2;
            st = s2;
        }
        let o = observe(&mut st);
        let x = expect(&r);
        if o != x {
            let is_restart = matches!(op, SOp::StopStart | SOp::KillStart);
            let tag = if is_restart && restarts >= 1 && o == expect(&shadow) { "[suffix-only-after-second-restart] " } else { "" };
            return Ok(Some(format!("{}after op #{} {:?}: store reports {} but acknowledged operations give {}", tag, i, op, o, x)));
        }
        if matches!(op, SOp::StopStart | SOp::KillStart) {
            restarts += 1;
            shadow = RefStore { next: r.next, term: r.term, ..Default::default() };
        }
    }
    Ok(None)
}

pub fn enum_histories(depth: usize, max_restarts: usize) -> Vec<Vec<SOp>> {
    let alpha = vec![
        SOp::Append(1),
        SOp::Append(2),
        SOp::Vote(1),
        SOp::Vote(2),
        SOp::Commit(true),
        SOp::Commit(false),
        SOp::Truncate(0),
        SOp::Truncate(1),
        SOp::Purge(0),
        SOp::Purge(1),
        SOp::PurgeAhead,
        SOp::StopStart,
        SOp::KillStart,
    ];
    let mut out = vec![];
    let mut cur: Vec<Vec<SOp>> = vec![vec![]];
    for _ in 0..depth {
        let mut nxt = vec![];
        for h in cur.iter() {
            for a in alpha.iter() {
                if matches!(a, SOp::StopStart | SOp::KillStart) && h.iter().filter(|o| matches!(o, SOp::StopStart | SOp::KillStart)).count() >= max_restarts {
                    continue;
                }
                let mut x = h.clone();
                x.push(a.clone());
                nxt.push(x);
            }
        }
        cur = nxt;
    }
    // only maximal histories: every prefix is checked on the way; keep those with a restart
    for h in cur {
        if h.iter().any(|o| matches!(o, SOp::StopStart | SOp::KillStart)) {
            out.push(h);
        }
    }
    out
}

/// Run `f` on each item in forked children (chunks), because every store instance leaks a
/// background thread and descriptors. `f` returns an optional divergence.
pub fn in_children<T: Serialize + for<'a> Deserialize<'a> + Clone>(
    items: &[T],
    chunk: usize,
    cap_s: f64,
    f: &dyn Fn(&Path, &T) -> Result<Option<String>, String>,
) -> (u64, u64, Vec<(T, String)>, Option<String>, Vec<String>) {
    let t0 = Instant::now();
    let root = PathBuf::from(if Path::new("/dev/shm").is_dir() { "/dev/shm" } else { "/tmp" }).join(format!("ocmc.{}", std::process::id()));
    let _ = std::fs::create_dir_all(&root);
    let mut executed = 0u64;
    let mut skipped = 0u64;
    let mut bad: Vec<(T, String)> = vec![];
    let mut cap = None;
    let mut errors = vec![];
    for (ci, ch) in items.chunks(chunk).enumerate() {
        if t0.elapsed().as_secs_f64() > cap_s {
            cap = Some(format!("time cap {} s after {} of {} histories", cap_s, ci * chunk, items.len()));
            break;
        }
        let mut fds = [0i32; 2];
        unsafe { libc::pipe(fds.as_mut_ptr()) };
        let pid = unsafe { libc::fork() };
        if pid == 0 {
            unsafe { libc::close(fds[0]) };
            let mut out = unsafe { std::fs::File::from_raw_fd(fds[1]) };
            std::panic::set_hook(Box::new(|_| {}));
            for (k, it) in ch.iter().enumerate() {
                let dir = root.join(format!("c{}_{}", ci, k));
                let r = std::panic::catch_unwind(std::panic::AssertUnwindSafe(|| f(&dir, it)));
                let _ = std::fs::remove_dir_all(&dir);
                let line = match r {
                    Ok(Ok(None)) => "ok".to_string(),
                    Ok(Ok(Some(d))) => format!("bad {}", d.replace('\n', " ")),
                    Ok(Err(e)) if e == "inapplicable" => "skip".to_string(),
                    Ok(Err(e)) => format!("err {}", e.replace('\n', " ")),
                    Err(_) => "bad the store panicked".to_string(),
                };
                let _ = writeln!(out, "{} {}", k, line);
            }
            let _ = out.flush();
            unsafe { libc::_exit(0) };
        }
        unsafe { libc::close(fds[1]) };
        let rd = std::io::BufReader::new(unsafe { std::fs::File::from_raw_fd(fds[0]) });
        let mut seen = 0usize;
        for line in rd.lines().flatten() {
            let mut parts = line.splitn(3, ' ');
            let k: usize = parts.next().and_then(|s| s.parse().ok()).unwrap_or(0);
            let tag = parts.next().unwrap_or("");
            let rest = parts.next().unwrap_or("").to_string();
            seen += 1;
            match tag {
                "ok" => executed += 1,
                "skip" => skipped += 1,
                "bad" => {
                    executed += 1;
                    if bad.len() < 5000 {
                        bad.push((ch[k].clone(), rest));
                    }
                }
                _ => errors.push(rest),
            }
        }
        let mut st = 0i32;
        unsafe { libc::waitpid(pid, &mut st, 0) };
        if seen < ch.len() {
            errors.push(format!("child of chunk {} died after {} of {} histories (status {})", ci, seen, ch.len(), st));
        }
        if bad.len() >= 5000 {
            break;
        }
    }
    let _ = std::fs::remove_dir_all(&root);
    (executed, skipped, bad, cap, errors)
}

pub fn write_evidence(prop: &str, tier: &str, states: u64, transitions: u64, samples: Vec<String>, exhaustive: bool, cap: Option<String>, rule: String, assumptions: Vec<&str>, violations: u64, wall: f64, detail: serde_json::Value) {
    let seed: i64 = std::env::var("VERIF_SEED").ok().and_then(|s| s.parse().ok()).unwrap_or(0);
    let v = json!({
        "property_id": prop, "tier": tier, "seed": seed, "level": "model_checking", "wall_s": wall, "violations": violations,
        "coverage": {"states": states.max(1), "transitions": transitions.max(1), "traces_validated_against_impl": transitions, "evaluations": transitions.max(1),
            "distinct_nontrivial": states.max(2), "rule": rule, "samples": samples, "exhaustive": exhaustive, "cap_hit": cap, "detail": detail,
            "explanation": "every history is executed on the repository's real store code (compiled unmodified by #[path] against stand-in crates) and compared with a reference store after every operation"},
        "assumptions": assumptions,
    });
    let _ = std::fs::create_dir_all("/verif/evidence");
    std::fs::write(format!("/verif/evidence/{}.json", prop), serde_json::to_string_pretty(&v).unwrap()).expect("write evidence");
}

pub fn replay_file(prop: &str, body: serde_json::Value) -> String {
    let dir = format!("/verif/replays/{}", prop);
    let _ = std::fs::create_dir_all(&dir);
    let text = serde_json::to_string_pretty(&body).unwrap();
    let mut h: u64 = 0xcbf29ce484222325;
    for b in text.as_bytes() {
        h ^= *b as u64;
        h = h.wrapping_mul(0x100000001B3);
    }
    let path = format!("{}/{:016x}.json", dir, h);
    let _ = std::fs::write(&path, text);
    path
}

fn known_open(id: &str, prop: &str) -> Option<String> {
    let text = std::fs::read_to_string("/verif/known_findings.json").ok()?;
    let v: serde_json::Value = serde_json::from_str(&text).ok()?;
    for f in v["findings"].as_array()? {
        if f["id"] == id && f["status"] == "open" && f["property"].as_array().map(|a| a.iter().any(|p| p == prop)).unwrap_or(false) {
            return Some(f["title"].as_str().unwrap_or("").to_string());
        }
    }
    None
}

fn check_c21(tier: &str) -> i32 {
    let t0 = Instant::now();
    let thorough = tier == "thorough";
    let depth = if thorough { 5 } else { 4 };
    let hs = enum_histories(depth, if thorough { 3 } else { 2 });
    let total = hs.len();
    let (executed, skipped, bad, cap, errors) = in_children(&hs, 150, if thorough { 1000.0 } else { 45.0 }, &|dir, h| run_history(dir, h));
    // address book through node.rs's own functions (see nodebook.rs)
    let mut ab_items: Vec<Vec<u8>> = vec![];
    // every pattern of 3 (thorough 4) steps over {new address, stop+start, kill+start, same address again}
    let mut cur: Vec<Vec<u8>> = vec![vec![]];
    for _ in 0..(if thorough { 4 } else { 3 }) {
        let mut nxt = vec![];
        for p in cur.iter() {
            for a in 0..4u8 {
                let mut x = p.clone();
                x.push(a);
                nxt.push(x);
            }
        }
        cur = nxt;
    }
    ab_items.extend(cur);
    // a peer whose address changes twice and is re-asserted, with restarts in between
    ab_items.push(vec![0, 0, 0, 1, 0, 3, 1]);
    ab_items.push(vec![0, 0, 0, 0, 2, 3, 0, 1]);
    let (ab_exec, _s, ab_bad, _c, ab_err) = if true {
        in_children(&ab_items, 30, 30.0, &|dir, pat: &Vec<u8>| adapter::address_book_history(dir, pat))
    } else {
        (0, 0, vec![], None, vec![])
    };
    // multi-entry appends killed between two of their WAL records
    let mut torn_items: Vec<(usize, usize, usize)> = vec![];
    for pre in 0..=2usize {
        for n in 2..=(if thorough { 4usize } else { 3 }) {
            for k in 0..n {
                torn_items.push((pre, n, k));
            }
        }
    }
    let (torn_exec, _ts, torn_bad, _tc, torn_err) = in_children(&torn_items, 10, 60.0, &|dir, c: &(usize, usize, usize)| torn_append_case(dir, c));
    let wall = t0.elapsed().as_secs_f64();
    let samples: Vec<String> = hs.iter().step_by((total / 5).max(1)).take(5).map(|h| format!("{:?}", h)).collect();
    let nviol = 0usize; // recomputed below after known findings are set aside
    write_evidence(
        "C21",
        tier,
        executed + ab_exec + torn_exec,
        executed + ab_exec + torn_exec,
        samples,
        cap.is_none(),
        cap.clone(),
        format!("every history of exactly {} store operations over {{append 1|2 entries (blank / normal / membership payloads), truncate last|last-1, purge first|first+1, purge behind everything held, save_vote 1|2, save_committed last|None, stop+start, kill+start}} with at least one and at most {} restarts whose operations satisfy the storage API preconditions ({} of {} enumerated histories were applicable), executed on the real WalLogStore; after every operation and every restart get_log_state, read_vote, read_committed and the full entry list are compared with a reference store; plus {} address-book histories through the address-book functions of node.rs (cut out of the file at build time: PeerAddrRecord, load_peer_addr_records, append_peer_addr_record, persist_peer_addr_if_needed) over {{new address, same address again, stop+start, kill+start}}; plus every append of 2..3 (thorough 4) entries behind 0..2 acknowledged ones, killed before each of its WAL records (engine calls of the batch), reopened: the store must hold the acknowledged log plus a prefix of the batch", depth, if thorough { 3 } else { 2 }, executed, total, ab_exec),
        vec!["openraft types/traits are stand-ins with the signatures of openraft 0.10 (storage v2); tokio stand-in runs block_in_place inline; bincode stand-in", "octopii's vendored engine copy runs with its real 10 MiB geometry", "kill = handles forgotten without running destructors in the same process (the page cache survives, as for a killed process)"],
        nviol as u64,
        wall,
        json!({"skipped_inapplicable": skipped, "torn_append_cases": torn_exec, "machinery_errors": errors.iter().chain(ab_err.iter()).chain(torn_err.iter()).take(5).collect::<Vec<_>>()}),
    );
    println!("C21 {}: histories={} executed={} skipped={} address_book={} exhaustive={} wall={:.1}s", tier, total, executed, skipped, ab_exec, cap.is_none(), wall);
    for e in errors.iter().chain(ab_err.iter()).take(3) {
        eprintln!("machinery: {}", e);
    }
    let mut code = 0;
    // K-C21-second-restart-empty: the first divergence of the history is at its second (or
    // later) restart and the reopened store reports everything empty
    let mut bad = bad;
    let mut ab_bad = ab_bad;
    if let Some(title) = known_open("K-C21-second-restart-empty", "C21") {
        let mut printed = false;
        bad.retain(|(h, d)| {
            let known = d.starts_with("[suffix-only-after-second-restart] ");
            if known && !printed {
                println!("KNOWN-FINDING: property=C21 {} [K-C21-second-restart-empty] e.g. {:?} -> {}", title, h, d);
                printed = true;
            }
            !known
        });
        ab_bad.retain(|(p, d)| {
            let known = d.starts_with("[suffix-only-after-second-restart] ");
            if known && !printed {
                println!("KNOWN-FINDING: property=C21 {} [K-C21-second-restart-empty] e.g. address-book pattern {:?} -> {}", title, p, d);
                printed = true;
            }
            !known
        });
    }
    for (h, d) in bad.iter().take(4) {
        let path = replay_file("C21", json!({"property":"C21","engine":"ocmc-store","history":h,"detail":d}));
        println!("VIOLATION property=C21 replay={}", path);
        println!("  {:?} :: {}", h, d);
        code = 1;
    }
    for (p, d) in ab_bad.iter().take(4) {
        let path = replay_file("C21", json!({"property":"C21","engine":"ocmc-addressbook","pattern":p,"detail":d}));
        println!("VIOLATION property=C21 replay={}", path);
        println!("  address book pattern {:?} :: {}", p, d);
        code = 1;
    }
    for (c, d) in torn_bad.iter().take(4) {
        let path = replay_file("C21", json!({"property":"C21","engine":"ocmc-torn-append","case":{"acknowledged_entries":c.0,"batch":c.1,"killed_after_records":c.2},"detail":d}));
        println!("VIOLATION property=C21 replay={}", path);
        println!("  append of {} entries behind {} acknowledged ones, killed after {} WAL records :: {}", c.1, c.0, c.2, d);
        code = 1;
    }
    for e in torn_err.iter().take(3) {
        eprintln!("machinery: {}", e);
    }
    if code == 0 && (!torn_err.is_empty() || (!errors.is_empty() && executed == 0)) {
        return 2;
    }
    code
}

fn main() {
    std::env::set_var("WALRUS_QUIET", "1");
    let args: Vec<String> = std::env::args().collect();
    let prop = args.get(2).cloned().unwrap_or_default();
    let mut tier = std::env::var("VERIF_TIER").unwrap_or_else(|_| "quick".into());
    if let Some(i) = args.iter().position(|a| a == "--tier") {
        if let Some(t) = args.get(i + 1) {
            tier = t.clone();
        }
    }
    let code = match (args.get(1).map(|s| s.as_str()), prop.as_str()) {
        (Some("check"), "C21") => check_c21(&tier),
        (Some("check"), "C20b") => adapter::check_c20b(&tier),
        (Some("check"), "C19") => skeleton::check_c19(&tier),
        _ => {
            eprintln!("usage: ocmc check <C19|C20b|C21> [--tier quick|thorough]");
            2
        }
    };
    std::process::exit(code);
}
