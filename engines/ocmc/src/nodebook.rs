//! The peer address book of octopii/src/openraft/node.rs: `PeerAddrRecord`,
//! `load_peer_addr_records`, `append_peer_addr_record` and
//! `OpenRaftNode::persist_peer_addr_if_needed` are the text of that file (cut out by build.rs);
//! the struct below only supplies the three fields they use, and `open` restates the four
//! constructor lines that open the WAL and load the records.
use crate::error::Result;
use crate::wal::WriteAheadLog;
use bytes::Bytes;
use serde::{Deserialize, Serialize};
use std::collections::HashMap;
use std::net::SocketAddr;
use std::sync::Arc;
use tokio::sync::RwLock;
use tokio::time::Duration;

fn register_global_peer_addr(_namespace: &str, _node_id: u64, _addr: SocketAddr) {}

pub struct OpenRaftNode {
    peer_addrs: Arc<RwLock<HashMap<u64, SocketAddr>>>,
    peer_addr_wal: Arc<WriteAheadLog>,
    peer_namespace: String,
}

include!(concat!(env!("OUT_DIR"), "/node_extract.rs"));

impl OpenRaftNode {
    pub async fn open(wal_dir: &std::path::Path) -> Result<Self> {
        let peer_addr_wal = Arc::new(WriteAheadLog::new(wal_dir.join("peer_addrs"), 100, Duration::from_millis(100)).await?);
        let initial_peer_map = load_peer_addr_records(&peer_addr_wal).await;
        Ok(OpenRaftNode { peer_addrs: Arc::new(RwLock::new(initial_peer_map)), peer_addr_wal, peer_namespace: "ns".into() })
    }
    pub async fn update_peer_addr(&self, peer_id: u64, addr: SocketAddr) -> Result<()> {
        self.persist_peer_addr_if_needed(peer_id, addr).await
    }
    pub async fn book(&self) -> std::collections::BTreeMap<u64, SocketAddr> {
        self.peer_addrs.read().await.iter().map(|(k, v)| (*k, *v)).collect()
    }
}
