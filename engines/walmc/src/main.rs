mod c14;
mod checks;
mod crash;
mod damage;
mod exec;
mod explore;
mod faults;
mod known;
mod model;
mod ops;
mod pool;
mod replay;
mod sched;
mod schedx;
mod worker;

fn main() {
    let args: Vec<String> = std::env::args().collect();
    match args.get(1).map(|s| s.as_str()) {
        Some("worker") => worker::worker_main(),
        Some("exec") => {
            // debug: run one job given as JSON on the command line
            let job: ops::Job = serde_json::from_str(&args[2]).expect("job json");
            let dir = worker::scratch_root().join("exec");
            let r = worker::run_job(&job, &dir);
            println!("{}", serde_json::to_string_pretty(&r).unwrap());
            let _ = std::fs::remove_dir_all(worker::scratch_root());
        }
        Some("check") => {
            let prop = args.get(2).cloned().unwrap_or_default();
            let mut tier = std::env::var("VERIF_TIER").unwrap_or_else(|_| "quick".into());
            if let Some(i) = args.iter().position(|a| a == "--tier") {
                if let Some(t) = args.get(i + 1) {
                    tier = t.clone();
                }
            }
            std::process::exit(checks::run_check(&prop, &tier));
        }
        Some("forktest") => {
            let n: usize = args[2].parse().unwrap();
            let mode = args.get(3).cloned().unwrap_or_default();
            let t = std::time::Instant::now();
            for i in 0..n {
                if mode == "fork" {
                    let (_l, _s) = worker::fork_collect(|_o| {}, 1000);
                } else if mode == "dir" {
                    let d = worker::scratch_root().join(format!("t{}", i));
                    std::fs::create_dir_all(&d).unwrap();
                    std::fs::write(d.join("f"), b"x").unwrap();
                    std::fs::remove_dir_all(&d).unwrap();
                } else if mode == "ring" {
                    let r = io_uring::IoUring::new(2048).unwrap();
                    drop(r);
                } else if mode == "ring8" {
                    let r = io_uring::IoUring::new(8).unwrap();
                    drop(r);
                } else if mode == "spawn" {
                    std::thread::spawn(|| {}).join().unwrap();
                } else if mode == "inst" {
                    unsafe { std::env::set_var("WALRUS_QUIET", "1") };
                    let d = worker::scratch_root().join(format!("t{}", i));
                    let t1 = std::time::Instant::now();
                    let w = walrus_rust::Walrus::builder().data_dir(d.clone()).key("k").fsync_schedule(walrus_rust::FsyncSchedule::NoFsync).build().unwrap();
                    let t2 = std::time::Instant::now();
                    w.append_for_topic("a", b"hello").unwrap();
                    let t3 = std::time::Instant::now();
                    let _ = w.read_next("a", true);
                    let t4 = std::time::Instant::now();
                    let _ = w.batch_read_for_topic("a", 100, true, None);
                    let t5 = std::time::Instant::now();
                    drop(w);
                    let t6 = std::time::Instant::now();
                    let _ = std::fs::remove_dir_all(&d);
                    if i == n - 1 {
                        println!("build {:?} append {:?} read_next {:?} batch_read {:?} drop {:?} rm {:?}", t2 - t1, t3 - t2, t4 - t3, t5 - t4, t6 - t5, t6.elapsed());
                    }
                } else if mode == "thread" {
                    let (_l, _s) = worker::fork_collect(|_o| { std::thread::spawn(|| { std::thread::sleep(std::time::Duration::from_secs(100)); }); }, 1000);
                }
            }
            println!("{} per iter {:.3} ms", mode, t.elapsed().as_secs_f64() * 1000.0 / n as f64);
        }
        Some("replay") => std::process::exit(replay::run(args.get(2).map(|s| s.as_str()).unwrap_or(""))),
        Some("geometry") => println!("{:?}", walrus_rust::wal::verif::geometry()),
        _ => {
            eprintln!("usage: walmc worker | exec <job-json> | geometry");
            std::process::exit(2);
        }
    }
}
