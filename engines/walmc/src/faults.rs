//! C04 part (b): injected I/O failures. For every bounded history `pre ++ [op] ++ post` and
//! every placement of one (thorough: also two) fault(s) at the fault seams the op passes
//! (flush at sealing / after a write, file creation at roll-over, negative or short io_uring
//! completion i of batch j), the history is executed on the real engine and stepped through
//! the reference model, which ignores an append that returned an error: any trace of it, or
//! any damage to its neighbours, in process or after a restart, is a discrepancy.
use crate::explore::{write_replay, Outcome, Violation};
use crate::known::Known;
use crate::model::Model;
use crate::ops::*;
use crate::pool::Pool;
use std::collections::HashSet;
use std::time::Instant;

fn job(id: u64, cfg: &Config, ops: Vec<Op>, faults: Vec<(String, i64)>, trace: bool) -> Job {
    Job { id, cfg: cfg.clone(), ops, want_digest: false, digest_each: false, want_listing: false, isolate: false, trace, pre_image: vec![], faults, sched: None }
}

pub fn run(pool: &Pool, tier: &str, _kf: &Known, out: &mut Outcome, cap_s: f64) {
    let stats = &mut out.stats;
    let violations = &mut out.violations;
    let t0 = Instant::now();
    let thorough = tier == "thorough";
    let s = crate::checks::sizes();
    let h = s.half;
    let geom = walrus_rust::wal::verif::geometry();
    let mk = |be: Backend, fs: Fsync| {
        let mut c = Config::new(Consistency::Strict, be);
        c.fsync = fs;
        c.gate_bg = true;
        c.gate_persist = true;
        c
    };
    let cfgs = if thorough {
        vec![mk(Backend::Fd, Fsync::No), mk(Backend::Mmap, Fsync::No), mk(Backend::Fd, Fsync::Each)]
    } else {
        vec![mk(Backend::Fd, Fsync::No), mk(Backend::Mmap, Fsync::Each)]
    };
    let pres: Vec<Vec<Op>> = vec![vec![], vec![Op::Append { t: 0, len: 1 }], vec![Op::Append { t: 0, len: h }, Op::Append { t: 1, len: h }]];
    let ops: Vec<Op> = vec![
        Op::Batch { t: 0, lens: vec![1, 1] },
        Op::Batch { t: 0, lens: vec![h, h] },
        Op::Batch { t: 0, lens: vec![h, h, 127] },
        Op::Batch { t: 0, lens: vec![1, h, 1, h] },
        Op::Append { t: 0, len: h },
        Op::Append { t: 0, len: s.fill },
        Op::Batch { t: 0, lens: vec![h, h, h, h, h, h, h, h, 5] }, // rolls over into a second file
    ];
    let post = vec![Op::Append { t: 0, len: 2 }, Op::ReadNext { t: 0, ckpt: true }];
    // second follow-up: an append of exactly the size of the failed batch's first entry, so
    // that it ends where a stale second header of the failed batch would begin
    let post_same = |op: &Op| -> Option<Vec<Op>> {
        match op {
            Op::Batch { lens, .. } if lens.len() >= 2 && lens[0] != 2 => Some(vec![Op::Append { t: 0, len: lens[0] }, Op::ReadNext { t: 0, ckpt: true }]),
            _ => None,
        }
    };
    let tails: Vec<Vec<Op>> = vec![vec![Op::Drain { t: 0 }, Op::Drain { t: 1 }], vec![Op::Restart, Op::Drain { t: 0 }, Op::Drain { t: 1 }]];
    let mut jid = 1_000_000u64;
    let mut outcomes: HashSet<String> = HashSet::new();
    'all: for cfg in cfgs.iter() {
        for pre in pres.iter() {
            for op in ops.iter() {
                if t0.elapsed().as_secs_f64() > cap_s {
                    stats.exhaustive = false;
                    stats.cap_hit = Some(format!("fault enumeration: time cap {:.0} s", cap_s));
                    break 'all;
                }
                let mut base = pre.clone();
                base.push(op.clone());
                let opi = pre.len();
                // count the seams the op passes: run once with the recorder
                jid += 1;
                let mut probe_ops = base.clone();
                probe_ops.extend(post.iter().cloned());
                let r0 = pool.run(vec![job(jid, cfg, probe_ops.clone(), vec![], true)]).remove(0);
                stats.transitions += 1;
                if r0.status != "ok" {
                    stats.machinery_errors.push(format!("fault probe run failed: {}", r0.status));
                    continue;
                }
                // seams inside the op: events between its begin and end markers
                let mut inside = false;
                let (mut flush_before, mut create_before, mut batch_before) = (0i64, 0i64, -1i64);
                let (mut flushes, mut creates) = (vec![], vec![]);
                let mut batches: Vec<(i64, usize)> = vec![];
                for e in r0.trace.iter() {
                    match e {
                        Ev::Mark { op: o, end } if *o == opi => inside = !*end,
                        Ev::Flush { .. } => {
                            if inside {
                                flushes.push(flush_before);
                            }
                            flush_before += 1;
                        }
                        Ev::Create { .. } => {
                            if inside {
                                creates.push(create_before);
                            }
                            create_before += 1;
                        }
                        Ev::BatchSubmit { n } => {
                            batch_before += 1;
                            if inside {
                                batches.push((batch_before, *n));
                            }
                        }
                        _ => {}
                    }
                }
                let mut placements: Vec<Vec<(String, i64)>> = vec![];
                for k in flushes.iter() {
                    placements.push(vec![("flush".into(), *k)]);
                }
                for k in creates.iter() {
                    placements.push(vec![("create_file".into(), *k)]);
                }
                for (b, _) in batches.iter() {
                    placements.push(vec![("batch_submit".into(), *b)]);
                }
                for (b, n) in batches.iter() {
                    for i in 0..*n {
                        placements.push(vec![(format!("cqe:{}:{}", b, i), -5)]);
                        placements.push(vec![(format!("cqe:{}:{}", b, i), 100)]); // short write
                    }
                }
                if thorough {
                    let singles = placements.clone();
                    for a in 0..singles.len() {
                        for b in (a + 1)..singles.len() {
                            let mut p = singles[a].clone();
                            p.extend(singles[b].iter().cloned());
                            placements.push(p);
                        }
                    }
                }
                let mut jobs = vec![];
                let mut meta = vec![];
                for pl in placements.iter() {
                    for tail in tails.iter() {
                        jid += 1;
                        let mut o = probe_ops.clone();
                        o.extend(tail.iter().cloned());
                        jobs.push(job(jid, cfg, o, pl.clone(), false));
                        meta.push(pl.clone());
                    }
                    // single failures only: the same placements with the same-size follow-up
                    if pl.len() == 1 {
                        if let Some(ps) = post_same(op) {
                            jid += 1;
                            let mut o = base.clone();
                            o.extend(ps);
                            o.extend(tails[1].iter().cloned());
                            jobs.push(job(jid, cfg, o, pl.clone(), false));
                            meta.push(pl.clone());
                        }
                    }
                }
                let results = pool.run(jobs.clone());
                let pc = stats.per_config.entry(format!("faults/{}", cfg.label())).or_insert((0, 0));
                pc.0 += placements.len() as u64;
                pc.1 += jobs.len() as u64;
                for ((j, r), pl) in jobs.iter().zip(results.iter()).zip(meta.iter()) {
                    stats.transitions += 1;
                    let mut bad: Option<(String, String)> = None;
                    if r.status.starts_with("internal") {
                        stats.machinery_errors.push(format!("{}: faults {:?} {}", r.status, pl, hist_str(&j.ops)));
                        continue;
                    }
                    if r.status != "ok" {
                        bad = Some(("crash".into(), format!("engine process {} with injected fault(s) {:?}", r.status, pl)));
                    } else {
                        let mut m = Model::new(cfg, false, geom.max_alloc);
                        for (o, ob) in j.ops.iter().zip(r.obs.iter()) {
                            let ds = m.step(o, ob);
                            if let Some(x) = ds.into_iter().find(|x| matches!(x.class, "read.order" | "read.empty" | "read.err" | "read.panic" | "count" | "reopen.err" | "reopen.panic" | "append.panic")) {
                                bad = Some((x.class.to_string(), format!("injected fault(s) {:?} during {}: after {}: {}", pl, op.short(), o.short(), x.detail)));
                                break;
                            }
                        }
                        outcomes.insert(format!("{:?}", r.obs.get(opi).map(|o| &o.res)));
                    }
                    match bad {
                        None => stats.states += 1,
                        Some((class, detail)) => {
                            if violations.len() < 5 {
                                let again = pool.run(vec![j.clone()]);
                                if again[0].obs != r.obs {
                                    stats.nondeterminism += 1;
                                    continue;
                                }
                                let v = Violation { prop: "C04".into(), cfg: cfg.clone(), ops: j.ops.clone(), class, detail, obs: r.obs.clone(), status: r.status.clone() };
                                let path = write_replay(&v);
                                if let Ok(text) = std::fs::read_to_string(&path) {
                                    if let Ok(mut jv) = serde_json::from_str::<serde_json::Value>(&text) {
                                        jv["faults"] = serde_json::to_value(pl).unwrap_or_default();
                                        let _ = std::fs::write(&path, serde_json::to_string_pretty(&jv).unwrap());
                                    }
                                }
                                violations.push((v, path));
                            }
                        }
                    }
                }
                if stats.samples.len() < 8 {
                    stats.samples.push(format!("[{}] faults at {} placements during {} after {}", cfg.label(), placements.len(), op.short(), hist_str(pre)));
                }
                if violations.len() >= 5 {
                    break 'all;
                }
            }
        }
    }
    stats.distinct_outcomes += outcomes.len();
}
