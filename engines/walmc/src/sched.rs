//! E3 (worker side): cooperative scheduler. Real OS threads run the per-thread programs on
//! one shared real engine instance; exactly one of them runs at a time. A thread gives up
//! the baton at every cfg-guarded scheduling point (H2, all placed where the thread holds
//! no engine lock) and at the boundaries of its API calls; the controller decides who runs
//! next from the choice prefix (then "keep running the same thread").
use crate::ops::*;
use std::cell::Cell;
use std::panic::{catch_unwind, AssertUnwindSafe};
use std::path::Path;
use std::sync::{Arc, Condvar, Mutex};
use std::time::{Duration, Instant};
use walrus_rust::wal::verif;
use walrus_rust::{FsyncSchedule, ReadConsistency, Walrus};

thread_local! {
    static TID: Cell<Option<usize>> = const { Cell::new(None) };
}

#[derive(Clone, Debug, PartialEq)]
enum St {
    Waiting(String),
    Running,
    Done,
}

struct Ctl {
    st: Vec<St>,
    turn: Option<usize>,
    steps: usize,
}

pub struct Sched {
    ctl: Mutex<Ctl>,
    cv: Condvar,
}

impl Sched {
    fn park(&self, id: usize, at: &str) {
        let mut g = self.ctl.lock().unwrap();
        g.st[id] = St::Waiting(at.to_string());
        g.turn = None;
        self.cv.notify_all();
        while g.turn != Some(id) {
            g = self.cv.wait(g).unwrap();
        }
        g.st[id] = St::Running;
    }
    fn done(&self, id: usize) {
        let mut g = self.ctl.lock().unwrap();
        g.st[id] = St::Done;
        g.turn = None;
        self.cv.notify_all();
    }
    fn steps(&self) -> usize {
        self.ctl.lock().unwrap().steps
    }
}

impl verif::Hooks for Sched {
    fn point(&self, name: &'static str) {
        if let Some(id) = TID.with(|t| t.get()) {
            self.park(id, name);
        }
    }
}

fn topic_name(t: u8) -> &'static str {
    TOPICS[t as usize % TOPICS.len()]
}

fn exec_op(w: &Walrus, tid: usize, seq_base: u32, op: &Op) -> Res {
    let err_kind = |e: &std::io::Error| format!("{:?}", e.kind());
    let r = catch_unwind(AssertUnwindSafe(|| match op {
        Op::Append { t, len } => match w.append_for_topic(topic_name(*t), &payload(*t, seq_base, *len)) {
            Ok(()) => Res::Ok,
            Err(e) => Res::Err(err_kind(&e)),
        },
        Op::Batch { t, lens } => {
            let datas: Vec<Vec<u8>> = lens.iter().enumerate().map(|(i, l)| payload(*t, seq_base + i as u32, *l)).collect();
            let refs: Vec<&[u8]> = datas.iter().map(|d| d.as_slice()).collect();
            match w.batch_append_for_topic(topic_name(*t), &refs) {
                Ok(()) => Res::Ok,
                Err(e) => Res::Err(err_kind(&e)),
            }
        }
        Op::ReadNext { t, ckpt } => match w.read_next(topic_name(*t), *ckpt) {
            Ok(Some(e)) => Res::One(ent_of(&e.data)),
            Ok(None) => Res::None,
            Err(e) => Res::Err(err_kind(&e)),
        },
        Op::BatchRead { t, budget, ckpt, start } => match w.batch_read_for_topic(topic_name(*t), *budget, *ckpt, *start) {
            Ok(v) => Res::Many(v.iter().map(|e| ent_of(&e.data)).collect()),
            Err(e) => Res::Err(err_kind(&e)),
        },
        _ => Res::Unit,
    }));
    let _ = tid;
    match r {
        Ok(x) => x,
        Err(_) => Res::Panic("panic".into()),
    }
}

/// sequence number base of op j of thread k (set-up ops use thread index 9)
pub fn seq_base(thread: usize, op: usize) -> u32 {
    (thread as u32) * 1000 + (op as u32) * 20
}

pub fn run(root: &Path, job: &Job) -> SchedOut {
    let spec = job.sched.as_ref().unwrap();
    crate::exec::process_setup();
    Walrus::__verif_reset_globals();
    match job.cfg.backend {
        Backend::Fd => walrus_rust::enable_fd_backend(),
        Backend::Mmap => walrus_rust::disable_fd_backend(),
    }
    verif::enable_gates(false, false);
    verif::set_clock(1_700_000_001_000);
    let cons = match job.cfg.cons {
        Consistency::Strict => ReadConsistency::StrictlyAtOnce,
        Consistency::Alo(n) => ReadConsistency::AtLeastOnce { persist_every: n },
    };
    let mut out = SchedOut { status: "ok".into(), ..Default::default() };
    let w = match Walrus::builder().data_dir(root.join("d0")).key("k0").consistency(cons).fsync_schedule(FsyncSchedule::NoFsync).build() {
        Ok(w) => Arc::new(w),
        Err(e) => {
            out.status = format!("internal:open:{}", e);
            return out;
        }
    };
    // set-up ops, sequentially, without the scheduler
    for (j, op) in job.ops.iter().enumerate() {
        let r = exec_op(&w, 9, seq_base(9, j), op);
        out.setup_results.push(r);
    }
    let n = spec.threads.len();
    let sched = Arc::new(Sched { ctl: Mutex::new(Ctl { st: vec![St::Running; n], turn: None, steps: 0 }), cv: Condvar::new() });
    verif::install_hooks(Some(sched.clone()));
    let results: Arc<Mutex<Vec<Vec<(Res, usize, usize)>>>> = Arc::new(Mutex::new(vec![vec![]; n]));
    let mut handles = vec![];
    for (k, prog) in spec.threads.iter().enumerate() {
        let (w, sched, results, prog) = (w.clone(), sched.clone(), results.clone(), prog.clone());
        // mark as not yet parked: the controller waits until every thread reached "start"
        handles.push(std::thread::spawn(move || {
            TID.with(|t| t.set(Some(k)));
            sched.park(k, "start");
            for (j, op) in prog.iter().enumerate() {
                let s0 = sched.steps();
                let r = exec_op(&w, k, seq_base(k, j), op);
                let s1 = sched.steps();
                results.lock().unwrap()[k].push((r, s0, s1));
                if j + 1 < prog.len() {
                    sched.park(k, "between_calls");
                }
            }
            TID.with(|t| t.set(None));
            sched.done(k);
        }));
    }
    // controller
    let mut last: Option<usize> = None;
    let deadline_per_step = Duration::from_secs(8);
    loop {
        // wait until nobody runs and every thread is parked or done
        let t0 = Instant::now();
        let mut g = sched.ctl.lock().unwrap();
        loop {
            let quiet = g.turn.is_none() && g.st.iter().all(|s| !matches!(s, St::Running));
            if quiet {
                break;
            }
            let (g2, to) = sched.cv.wait_timeout(g, Duration::from_millis(200)).unwrap();
            g = g2;
            if to.timed_out() && t0.elapsed() > deadline_per_step {
                out.status = format!(
                    "stuck: thread {:?} neither reached a scheduling point nor finished within {} s (deadlock, or a point is missing)",
                    g.turn,
                    deadline_per_step.as_secs()
                );
                drop(g);
                // cannot recover the threads: leave them; the worker will be recycled
                verif::install_hooks(None);
                return out;
            }
        }
        let mut enabled: Vec<usize> = (0..n).filter(|i| matches!(g.st[*i], St::Waiting(_))).collect();
        if enabled.is_empty() {
            break;
        }
        // A thread parked inside batch_write holds the topic's writer mutexes (that is asked
        // of the engine, not assumed). While they are held, a thread whose next step is to
        // take them would block in the kernel instead of reaching a point: it is disabled.
        let holder_parked = (0..n).any(|i| matches!(&g.st[i], St::Waiting(a) if a == "bw.planned" || a == "bw.before_publish"));
        if holder_parked && w.__verif_writer_locked(topic_name(0)) {
            let needs_lock = |i: usize| -> bool {
                match &g.st[i] {
                    St::Waiting(a) if a == "w.before_lock" || a == "bw.before_lock" || a == "rn.tail_snapshot" => true,
                    St::Waiting(a) if a == "start" || a == "between_calls" => {
                        // the next call starts by snapshotting the writer
                        let done = results.lock().unwrap()[i].len();
                        matches!(spec.threads[i].get(done), Some(Op::BatchRead { .. }))
                    }
                    _ => false,
                }
            };
            let filtered: Vec<usize> = enabled.iter().copied().filter(|i| !needs_lock(*i)).collect();
            if filtered.is_empty() {
                out.status = "stuck: every parked thread waits for writer mutexes held by a parked thread".into();
                drop(g);
                verif::install_hooks(None);
                return out;
            }
            enabled = filtered;
        }
        let last_enabled = last.map(|l| enabled.contains(&l)).unwrap_or(false);
        if let Some(l) = last {
            if last_enabled {
                enabled.retain(|x| *x != l);
                enabled.insert(0, l);
            }
        }
        let di = out.decisions.len();
        let choice = if di < spec.prefix.len() { spec.prefix[di] } else { 0 };
        if choice >= enabled.len() {
            out.status = format!("internal:prefix choice {} out of range at decision {} ({} enabled)", choice, di, enabled.len());
            // let everything run to completion in default order to release the threads
            g.turn = Some(enabled[0]);
            g.st[enabled[0]] = St::Running;
            sched.cv.notify_all();
            drop(g);
            continue;
        }
        let chosen = enabled[choice];
        let at: Vec<String> = enabled.iter().map(|i| if let St::Waiting(a) = &g.st[*i] { a.clone() } else { String::new() }).collect();
        out.decisions.push(Decision { enabled: enabled.clone(), chosen: choice, last_enabled, at });
        g.steps += 1;
        g.turn = Some(chosen);
        g.st[chosen] = St::Running;
        last = Some(chosen);
        sched.cv.notify_all();
        drop(g);
    }
    for h in handles {
        let _ = h.join();
    }
    verif::install_hooks(None);
    out.results = results.lock().unwrap().clone();
    // quiescent observations by the main thread: drain, then the physical log order
    let mut drain = vec![];
    for _ in 0..10_000 {
        match w.read_next(topic_name(0), true) {
            Ok(Some(e)) => drain.push(ent_of(&e.data)),
            _ => break,
        }
    }
    out.final_drain = drain;
    if let Ok(v) = w.batch_read_for_topic(topic_name(0), usize::MAX, false, Some(0)) {
        out.physical = v.iter().map(|e| ent_of(&e.data)).collect();
    }
    out
}
