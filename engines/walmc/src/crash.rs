//! E2: crash-state enumeration from recorded I/O traces.
//!
//! A bounded workload is executed once with the H3 recorder on (every durable mutation
//! with its bytes, plus begin/end markers around every API call). Every crash state is
//! then *constructed* by replaying a subset of the recorded mutations onto an empty
//! directory (no process is killed), opened by the real recovery code and drained.
//!
//! Process-crash model (C07, C08, C09): completed mutations persist; a crash state is a
//! prefix of the trace, and if the prefix ends inside an io_uring batch, any subset of that
//! batch's writes.
//! Power-loss model (C10): additionally, per file, every write after the file's last sync
//! that was not O_SYNC may be lost independently; an index rename is durable only if a
//! directory sync followed it.
use crate::explore::{write_replay, Outcome, Stats, Violation};
use crate::known::Known;
use crate::model::Model;
use crate::ops::*;
use crate::pool::Pool;
use std::collections::{BTreeMap, HashSet};
use std::time::Instant;

#[derive(Clone)]
struct CrashState {
    /// number of trace events "seen" (crash point)
    p: usize,
    applied: Vec<Ev>,
    desc: String,
}

fn is_mutation(e: &Ev) -> bool {
    matches!(
        e,
        Ev::Mkdir { .. }
            | Ev::Create { .. }
            | Ev::SetLen { .. }
            | Ev::Write { .. }
            | Ev::WriteFile { .. }
            | Ev::Rename { .. }
            | Ev::Unlink { .. }
            | Ev::BatchSubmit { .. }
            | Ev::BatchDone
    )
}

/// Process-crash states of a trace.
fn process_crash_states(trace: &[Ev], max_subset_n: usize, capped: &mut bool) -> Vec<CrashState> {
    let mut out = Vec::new();
    let mut applied: Vec<Ev> = Vec::new();
    let mut pending_batch: Vec<Ev> = Vec::new();
    out.push(CrashState { p: 0, applied: vec![], desc: "before anything".into() });
    for (i, e) in trace.iter().enumerate() {
        match e {
            Ev::BatchWrite { .. } => {
                pending_batch.push(e.clone());
                continue;
            }
            Ev::BatchSubmit { .. } => {
                // crash while the batch is in flight: every subset of its writes
                let n = pending_batch.len();
                let masks: Vec<u64> = if n <= max_subset_n {
                    (0..(1u64 << n)).collect()
                } else {
                    *capped = true;
                    let mut m: Vec<u64> = Vec::new();
                    for k in 0..=n {
                        m.push((1u64 << k) - 1); // prefixes
                        m.push(((1u64 << n) - 1) & !((1u64 << k) - 1)); // suffixes
                    }
                    for k in 0..n {
                        m.push(1u64 << k); // single inclusion
                        m.push(((1u64 << n) - 1) & !(1u64 << k)); // single omission
                    }
                    m.sort();
                    m.dedup();
                    m
                };
                for mask in masks {
                    if mask == (1u64 << n) - 1 {
                        continue; // the complete batch is the state after BatchDone
                    }
                    let mut a = applied.clone();
                    for (k, w) in pending_batch.iter().enumerate() {
                        if mask & (1 << k) != 0 {
                            a.push(w.clone());
                        }
                    }
                    if mask != 0 {
                        out.push(CrashState { p: i + 1, applied: a, desc: format!("inside io_uring batch, writes {:b} of {} landed", mask, n) });
                    }
                }
                continue;
            }
            Ev::BatchDone => {
                applied.append(&mut pending_batch);
                out.push(CrashState { p: i + 1, applied: applied.clone(), desc: format!("after event #{} (batch complete)", i) });
                continue;
            }
            _ => {}
        }
        if is_mutation(e) {
            applied.push(e.clone());
            out.push(CrashState { p: i + 1, applied: applied.clone(), desc: format!("after event #{} {}", i, ev_short(e)) });
        }
    }
    out
}

fn ev_short(e: &Ev) -> String {
    match e {
        Ev::Write { f, off, data, osync } => format!("write({},{},{}B{})", base(f), off, data.len() / 2, if *osync { ",O_SYNC" } else { "" }),
        Ev::BatchWrite { f, off, data, idx } => format!("batch_write#{}({},{},{}B)", idx, base(f), off, data.len() / 2),
        Ev::WriteFile { f, data } => format!("write_file({},{}B)", base(f), data.len() / 2),
        Ev::Rename { from, to } => format!("rename({}->{})", base(from), base(to)),
        Ev::Create { f } => format!("create({})", base(f)),
        Ev::SetLen { f, len } => format!("set_len({},{})", base(f), len),
        Ev::Mkdir { p } => format!("mkdir({})", p),
        Ev::Unlink { f } => format!("unlink({})", base(f)),
        Ev::Flush { f } => format!("flush({})", base(f)),
        Ev::FsyncFile { f } => format!("fsync({})", base(f)),
        Ev::DirSync { p } => format!("dirsync({})", p),
        other => format!("{:?}", other),
    }
}
fn base(f: &str) -> &str {
    f.rsplit('/').next().unwrap_or(f)
}

/// Power-loss states: for every prefix, the durable image plus every admissible subset of
/// volatile mutations.
fn power_loss_states(trace: &[Ev], max_volatile: usize, capped: &mut bool) -> Vec<CrashState> {
    // state per prefix: list of (event, durable?) in order
    let mut out = Vec::new();
    // items: (event, volatile group key)
    let mut items: Vec<(Ev, bool)> = Vec::new(); // (event, durable)
    let mut pending_batch: Vec<Ev> = Vec::new();
    let emit = |items: &Vec<(Ev, bool)>, p: usize, desc: String, out: &mut Vec<CrashState>, capped: &mut bool| {
        let vol: Vec<usize> = items.iter().enumerate().filter(|(_, (_, d))| !*d).map(|(i, _)| i).collect();
        let n = vol.len();
        let masks: Vec<u64> = if n <= max_volatile {
            (0..(1u64 << n)).collect()
        } else {
            *capped = true;
            let mut m: Vec<u64> = Vec::new();
            for k in 0..=n.min(62) {
                m.push((1u64 << k) - 1);
            }
            for k in 0..n.min(62) {
                m.push(((1u64 << n.min(62)) - 1) & !(1u64 << k));
            }
            m.sort();
            m.dedup();
            m
        };
        for mask in masks {
            let mut a = Vec::new();
            for (i, (e, d)) in items.iter().enumerate() {
                if *d {
                    a.push(e.clone());
                } else {
                    let k = vol.iter().position(|x| *x == i).unwrap();
                    if k < 64 && mask & (1u64 << k) != 0 {
                        a.push(e.clone());
                    }
                }
            }
            out.push(CrashState { p, applied: a, desc: format!("{}; volatile kept {:b} of {}", desc, mask, n) });
        }
    };
    emit(&items, 0, "power cut before anything".into(), &mut out, capped);
    for (i, e) in trace.iter().enumerate() {
        let mut changed = false;
        match e {
            Ev::Mkdir { .. } | Ev::Create { .. } | Ev::SetLen { .. } => {
                // the harness pre-creates and syncs the namespace directory; file creation
                // is followed by fsync + dirsync in the engine: treated as durable once
                // DirSync is seen; keep it simple and conservative: durable immediately
                items.push((e.clone(), true));
                changed = true;
            }
            Ev::Write { osync, .. } => {
                items.push((e.clone(), *osync));
                changed = true;
            }
            Ev::BatchWrite { .. } => pending_batch.push(e.clone()),
            Ev::BatchSubmit { .. } => {}
            Ev::BatchDone => {
                for w in pending_batch.drain(..) {
                    // io_uring writes go through the same O_SYNC descriptor when the file was
                    // opened with it; the trace does not carry the flag, so be conservative:
                    // volatile until the following flush
                    items.push((w, false));
                }
                changed = true;
            }
            Ev::Flush { f } | Ev::FsyncFile { f } => {
                for (ev, d) in items.iter_mut() {
                    match ev {
                        Ev::Write { f: g, .. } | Ev::BatchWrite { f: g, .. } | Ev::WriteFile { f: g, .. } if g == f => *d = true,
                        _ => {}
                    }
                }
            }
            Ev::WriteFile { .. } => {
                items.push((e.clone(), false));
                changed = true;
            }
            Ev::Rename { .. } => {
                // durable only after a directory sync
                items.push((e.clone(), false));
                changed = true;
            }
            Ev::DirSync { .. } => {
                for (ev, d) in items.iter_mut() {
                    if matches!(ev, Ev::Rename { .. } | Ev::Unlink { .. }) {
                        *d = true;
                    }
                }
            }
            Ev::Unlink { .. } => {
                items.push((e.clone(), false));
                changed = true;
            }
            Ev::Mark { .. } => {
                // API boundaries are crash points too (nothing in flight)
                changed = matches!(e, Ev::Mark { end: true, .. });
            }
        }
        if changed {
            emit(&items, i + 1, format!("power cut after event #{} {}", i, ev_short(e)), &mut out, capped);
        }
    }
    out
}

fn sanitize_volatile(applied: &[Ev]) -> Vec<Ev> {
    // a kept Rename whose WriteFile was dropped cannot be materialised: drop it too
    // (the rename of a never-written tmp file would have moved an empty/garbage file; the
    // engine fsyncs the tmp file before renaming, so WriteFile is durable before Rename
    // can happen)
    let mut have: HashSet<String> = HashSet::new();
    let mut out = Vec::new();
    for e in applied {
        match e {
            Ev::WriteFile { f, .. } => {
                have.insert(f.clone());
                out.push(e.clone());
            }
            Ev::Rename { from, .. } => {
                if have.remove(from) {
                    out.push(e.clone());
                }
            }
            _ => out.push(e.clone()),
        }
    }
    out
}

struct Expect {
    /// per topic: acknowledged log, allowed cursor range [lo, hi], in-flight entries
    per_topic: BTreeMap<u8, (Vec<Ent>, usize, usize, Vec<Ent>)>,
    inflight: Option<usize>,
}

/// Reference expectations for a crash at trace position p.
fn expectations(cfg: &Config, ops: &[Op], obs: &[Obs], trace: &[Ev], p: usize, max_alloc: u64) -> Expect {
    let mut acked: Vec<usize> = Vec::new();
    let mut begun: Vec<usize> = Vec::new();
    for e in &trace[..p.min(trace.len())] {
        if let Ev::Mark { op, end } = e {
            if *end {
                acked.push(*op);
            } else {
                begun.push(*op);
            }
        }
    }
    let inflight = begun.iter().copied().find(|o| !acked.contains(o));
    let mut model = Model::new(cfg, false, max_alloc);
    let mut read_next_only = true;
    for (i, op) in ops.iter().enumerate() {
        if matches!(op, Op::Restart | Op::Reopen) {
            // a restart is "acknowledged" when a later op began
            if begun.iter().any(|b| *b > i) {
                let _ = model.step(op, &obs[i]);
            }
            continue;
        }
        if acked.contains(&i) {
            if matches!(op, Op::BatchRead { ckpt: true, start: None, .. }) {
                read_next_only = false;
            }
            let _ = model.step(op, &obs[i]);
        }
    }
    let mut per_topic = BTreeMap::new();
    for t in 0..3u8 {
        let (log, mut lo, mut hi) = match model.topic_ro(t) {
            Some(tm) => (
                tm.log.iter().map(|e| e.ent.clone()).collect::<Vec<_>>(),
                tm.cands.iter().min().copied().unwrap_or(0),
                tm.cands.iter().max().copied().unwrap_or(0),
            ),
            None => (vec![], 0, 0),
        };
        let mut fl: Vec<Ent> = vec![];
        if let Some(fi) = inflight {
            match &ops[fi] {
                Op::Append { t: tt, len } if *tt == t => {
                    // sequence number = entries of that topic generated so far
                    let seq = seq_of(ops, fi, t);
                    fl.push(ent_of(&payload(t, seq, *len)));
                }
                Op::Batch { t: tt, lens } if *tt == t => {
                    let seq = seq_of(ops, fi, t);
                    for (k, l) in lens.iter().enumerate() {
                        fl.push(ent_of(&payload(t, seq + k as u32, *l)));
                    }
                }
                Op::ReadNext { t: tt, ckpt: true } if *tt == t => hi = (hi + 1).min(log.len()),
                Op::BatchRead { t: tt, ckpt: true, start: None, .. } | Op::Drain { t: tt } if *tt == t => hi = log.len(),
                _ => {}
            }
        }
        if let Consistency::Alo(n) = cfg.cons {
            lo = if read_next_only { lo.saturating_sub(n.max(1) as usize) } else { 0 };
        }
        per_topic.insert(t, (log, lo, hi, fl));
    }
    Expect { per_topic, inflight }
}

fn seq_of(ops: &[Op], upto: usize, t: u8) -> u32 {
    let mut s = 0u32;
    for op in &ops[..upto] {
        match op {
            Op::Append { t: tt, .. } if *tt == t => s += 1,
            Op::Batch { t: tt, lens } if *tt == t => s += lens.len() as u32,
            Op::BatchN { t: tt, n, .. } if *tt == t => s += *n as u32,
            _ => {}
        }
    }
    s
}

fn is_subseq(g: &[Ent], f: &[Ent]) -> bool {
    let mut i = 0;
    for x in f {
        if i < g.len() && g[i] == *x {
            i += 1;
        }
    }
    i == g.len()
}

/// D must be log[j..] ++ G with lo <= j <= hi and G a subsequence of the in-flight
/// entries. Returns (ok, partial_batch) where partial_batch says G is a non-empty strict
/// subset of a multi-entry in-flight batch, and whether it is a prefix of it.
fn check_drain(d: &[Ent], log: &[Ent], lo: usize, hi: usize, fl: &[Ent]) -> (bool, Option<bool>) {
    for j in lo..=hi.min(log.len()) {
        let rest = &log[j..];
        if d.len() >= rest.len() && d[..rest.len()] == *rest {
            let g = &d[rest.len()..];
            if g.len() <= fl.len() && is_subseq(g, fl) {
                let partial = if !g.is_empty() && g.len() < fl.len() { Some(fl[..g.len()] == *g) } else { None };
                return (true, partial);
            }
        }
    }
    (false, None)
}

pub struct CrashSpec {
    pub prop: &'static str,
    pub cfgs: Vec<Config>,
    pub workloads: Vec<Vec<Op>>,
    pub power_loss: bool,
    pub time_cap_s: f64,
}

fn enum_seqs(alpha: &[Op], depth: usize, max_restarts: usize) -> Vec<Vec<Op>> {
    let mut out: Vec<Vec<Op>> = vec![];
    let mut cur: Vec<Vec<Op>> = vec![vec![]];
    for _ in 0..depth {
        let mut nxt = vec![];
        for h in cur.iter() {
            for a in alpha {
                if matches!(a, Op::Restart) && (h.iter().filter(|o| matches!(o, Op::Restart)).count() >= max_restarts || h.is_empty()) {
                    continue;
                }
                let mut x = h.clone();
                x.push(a.clone());
                nxt.push(x);
            }
        }
        out.extend(nxt.iter().cloned());
        cur = nxt;
    }
    // a workload ending in Restart adds nothing
    out.retain(|w| !matches!(w.last(), Some(Op::Restart)));
    out
}

pub fn spec_for(prop: &str, tier: &str) -> Option<CrashSpec> {
    let s = crate::checks::sizes();
    let thorough = tier == "thorough";
    let (half, over) = (s.half, s.over);
    let mk = |cons: Consistency, be: Backend, fs: Fsync| {
        let mut c = Config::new(cons, be);
        c.fsync = fs;
        c.gate_bg = true;
        c.gate_persist = true;
        c
    };
    match prop {
        "C07" => {
            let alpha = vec![
                Op::Append { t: 0, len: 1 },
                Op::Append { t: 0, len: half },
                Op::Append { t: 0, len: over },
                Op::Append { t: 1, len: half },
                Op::Batch { t: 0, lens: vec![half, half, 127] },
                Op::Batch { t: 0, lens: vec![1, 1] },
                Op::ReadNext { t: 0, ckpt: false },
                Op::Restart,
            ];
            Some(CrashSpec {
                prop: "C07",
                cfgs: if thorough {
                    vec![
                        mk(Consistency::Strict, Backend::Fd, Fsync::No),
                        mk(Consistency::Strict, Backend::Mmap, Fsync::No),
                        mk(Consistency::Strict, Backend::Fd, Fsync::Each),
                        mk(Consistency::Strict, Backend::Mmap, Fsync::Each),
                        mk(Consistency::Alo(2), Backend::Fd, Fsync::Ms(1)),
                    ]
                } else {
                    vec![mk(Consistency::Strict, Backend::Fd, Fsync::No), mk(Consistency::Strict, Backend::Mmap, Fsync::Each)]
                },
                workloads: {
                    let mut w = enum_seqs(&alpha, if thorough { 4 } else { 3 }, 1);
                    // a file whose third unit was handed out but never written (the first
                    // append on a topic was rejected): the next rotation lands in the last unit
                    // of the file, behind an all-zero unit
                    let hole = vec![Op::Append { t: 0, len: 1 }, Op::Append { t: 1, len: half }, Op::Append { t: 2, len: s.max_alloc }];
                    for tail in enum_seqs(&alpha, if thorough { 3 } else { 2 }, 1) {
                        let mut x = hole.clone();
                        x.extend(tail);
                        w.push(x);
                    }
                    // a zero-length entry in the last header-sized slot of a block
                    let last_slot = vec![Op::Append { t: 0, len: s.fill - (s.bs - s.fill) }, Op::Append { t: 0, len: 0 }];
                    for tail in enum_seqs(&alpha, if thorough { 3 } else { 2 }, 1) {
                        let mut x = last_slot.clone();
                        x.extend(tail);
                        w.push(x);
                    }
                    if thorough {
                        for (_n, pre) in crate::checks::prestates() {
                            for tail in enum_seqs(&alpha, 2, 1) {
                                let mut x = pre.clone();
                                x.extend(tail);
                                w.push(x);
                            }
                        }
                    }
                    w
                },
                power_loss: false,
                time_cap_s: if thorough { 1100.0 } else { 55.0 },
            })
        }
        "C08" => {
            let shapes: Vec<Vec<usize>> = vec![
                vec![1, 1],
                vec![half, half],
                vec![half, half, 127],
                vec![1, half, 1, half],
                vec![half, half, half, half, 127],
                vec![1, 1, 1, 1, 1, 1],
                vec![0, 0, 0],
                vec![over, 1],
                // an oversized entry behind a small one: with the two-topic prefix its two-unit
                // block ends exactly at the end of the file while the small entry sits elsewhere
                vec![1, over],
                vec![1, over, 1],
            ];
            let mut shapes = shapes;
            if thorough {
                shapes.push(vec![1; 12]);
                shapes.push(vec![half; 7]);
                shapes.push(vec![127, 128, 129, half, 1, 0, half, half, 5]);
            }
            let prefixes: Vec<Vec<Op>> = vec![
                vec![],
                vec![Op::Append { t: 0, len: 1 }],
                vec![Op::Append { t: 0, len: half }, Op::Append { t: 1, len: half }],
            ];
            let mut workloads = vec![];
            for pre in prefixes.iter() {
                for sh in shapes.iter() {
                    let mut w = pre.clone();
                    w.push(Op::Batch { t: 0, lens: sh.clone() });
                    workloads.push(w);
                }
            }
            Some(CrashSpec {
                prop: "C08",
                cfgs: vec![mk(Consistency::Strict, Backend::Fd, Fsync::No), mk(Consistency::Strict, Backend::Mmap, Fsync::No)],
                workloads,
                power_loss: false,
                time_cap_s: if thorough { 1100.0 } else { 55.0 },
            })
        }
        "C09" => {
            let alpha = vec![
                Op::Append { t: 0, len: 1 },
                Op::Append { t: 0, len: half },
                Op::ReadNext { t: 0, ckpt: true },
                Op::BatchRead { t: 0, budget: 257, ckpt: true, start: None },
                Op::BatchRead { t: 0, budget: usize::MAX, ckpt: true, start: None },
                Op::Restart,
            ];
            let mut workloads: Vec<Vec<Op>> = vec![];
            let roots: Vec<Vec<Op>> = vec![
                vec![Op::Append { t: 0, len: 1 }, Op::Append { t: 0, len: 1 }],
                vec![Op::Append { t: 0, len: half }, Op::Append { t: 0, len: half }, Op::Append { t: 0, len: 128 }, Op::Append { t: 0, len: 1 }],
                // equal entries, one per block / two per block: successive durable cursor
                // positions share their in-block offset and differ only in the block
                vec![Op::Append { t: 0, len: s.fill }, Op::Append { t: 0, len: s.fill }, Op::Append { t: 0, len: s.fill }],
                vec![Op::Append { t: 0, len: half }, Op::Append { t: 0, len: half }, Op::Append { t: 0, len: half }, Op::Append { t: 0, len: half }, Op::Append { t: 0, len: half }],
                // the consumer read part of a block through the tail path, then the writer
                // sealed that block: the in-memory tail progress names a block that is now
                // in the sealed chain while the next polls arrive on the new active block
                vec![
                    Op::Append { t: 0, len: 1 },
                    Op::Append { t: 0, len: 1 },
                    Op::ReadNext { t: 0, ckpt: true },
                    Op::Append { t: 0, len: half },
                    Op::Append { t: 0, len: half },
                    Op::Append { t: 0, len: 1 },
                ],
            ];
            if thorough {
                // every library pre-state with shorter suffixes
                for (_n, pre) in crate::checks::prestates() {
                    for suffix in enum_seqs(&alpha, 3, 1) {
                        if !suffix.iter().any(|o| matches!(o, Op::ReadNext { .. } | Op::BatchRead { .. })) {
                            continue;
                        }
                        let mut w = pre.clone();
                        w.extend(suffix);
                        workloads.push(w);
                    }
                }
            }
            for r in roots.iter() {
                for suffix in enum_seqs(&alpha, if thorough { 4 } else { 3 }, 1) {
                    if !suffix.iter().any(|o| matches!(o, Op::ReadNext { .. } | Op::BatchRead { .. })) {
                        continue;
                    }
                    let mut w = r.clone();
                    w.extend(suffix);
                    workloads.push(w);
                }
            }
            // a sealed block of two equal entries and a small entry in the tail, read with a byte
            // budget that ends exactly behind the first entry's header + payload
            {
                let pre = vec![Op::Append { t: 0, len: half }, Op::Append { t: 0, len: half }, Op::Append { t: 0, len: 1 }];
                let mut a2 = alpha.clone();
                a2.push(Op::BatchRead { t: 0, budget: half + (s.bs - s.fill), ckpt: true, start: None });
                for suffix in enum_seqs(&a2, 2, 1) {
                    if !suffix.iter().any(|o| matches!(o, Op::BatchRead { budget, .. } if *budget == half + (s.bs - s.fill))) {
                        continue;
                    }
                    let mut w = pre.clone();
                    w.extend(suffix);
                    workloads.push(w);
                }
            }
            let mut cfgs = vec![mk(Consistency::Strict, Backend::Fd, Fsync::No), mk(Consistency::Alo(2), Backend::Fd, Fsync::No)];
            if thorough {
                cfgs.push(mk(Consistency::Strict, Backend::Mmap, Fsync::No));
                for n in [1u32, 3, 4, 8] {
                    cfgs.push(mk(Consistency::Alo(n), Backend::Fd, Fsync::No));
                }
            }
            Some(CrashSpec { prop: "C09", cfgs, workloads, power_loss: false, time_cap_s: if thorough { 1100.0 } else { 55.0 } })
        }
        "C10" => {
            let alpha = vec![
                Op::Append { t: 0, len: 1 },
                Op::Append { t: 0, len: half },
                Op::Append { t: 1, len: half },
                Op::Batch { t: 0, lens: vec![half, half, 127] },
                Op::ReadNext { t: 0, ckpt: true },
                Op::BatchRead { t: 0, budget: usize::MAX, ckpt: true, start: None },
            ];
            Some(CrashSpec {
                prop: "C10",
                cfgs: vec![mk(Consistency::Strict, Backend::Fd, Fsync::Each), mk(Consistency::Strict, Backend::Mmap, Fsync::Each), {
                    // the SyncEach instance is not the first instance of its process: the
                    // process-wide O_SYNC choice was made by a NoFsync instance, so its files
                    // are opened without O_SYNC and durability rests on the explicit flushes
                    let mut c = mk(Consistency::Strict, Backend::Fd, Fsync::Each);
                    c.decoy_first = true;
                    c
                }],
                workloads: {
                    let mut w = enum_seqs(&alpha, if thorough { 4 } else { 3 }, 0);
                    // a first file with every block handed out (an oversized entry takes two
                    // units after the writer's initial one, a second topic takes the last):
                    // the next rotation of either topic opens a new file
                    let full_file = vec![Op::Append { t: 0, len: over }, Op::Append { t: 1, len: half }];
                    for tail in enum_seqs(&alpha[..3], if thorough { 3 } else { 2 }, 0) {
                        let mut x = full_file.clone();
                        x.extend(tail);
                        w.push(x);
                    }
                    // equal entries, one per block: successive durable cursor positions differ
                    // only in the block
                    let one_per_block = vec![Op::Append { t: 0, len: s.fill }, Op::Append { t: 0, len: s.fill }, Op::Append { t: 0, len: s.fill }];
                    for tail in enum_seqs(&alpha[4..], 3, 0) {
                        let mut x = one_per_block.clone();
                        x.extend(tail);
                        w.push(x);
                    }
                    if thorough {
                        for (_n, pre) in crate::checks::prestates() {
                            for tail in enum_seqs(&alpha, 2, 0) {
                                let mut x = pre.clone();
                                x.extend(tail);
                                w.push(x);
                            }
                        }
                    }
                    w
                },
                power_loss: true,
                time_cap_s: if thorough { 1100.0 } else { 55.0 },
            })
        }
        _ => None,
    }
}

pub fn run(pool: &Pool, spec: &CrashSpec, kf: &Known) -> Outcome {
    let t0 = Instant::now();
    let geom = walrus_rust::wal::verif::geometry();
    let mut stats = Stats { exhaustive: true, ..Default::default() };
    let mut violations: Vec<(Violation, String)> = Vec::new();
    let mut known_lines: Vec<String> = Vec::new();
    let mut outcomes: HashSet<u64> = HashSet::new();
    let mut jid = 0u64;
    let ncfg = spec.cfgs.len() as f64;
    'cfgs: for (ci, cfg) in spec.cfgs.iter().enumerate() {
        let deadline = spec.time_cap_s * (ci as f64 + 1.0) / ncfg;
        let label = cfg.label();
        let mut n_states = 0u64;
        let mut n_wl = 0u64;
        // 1) run the workloads with the recorder on (isolated: pristine process, real restarts)
        for wchunk in spec.workloads.chunks(200) {
            if t0.elapsed().as_secs_f64() > deadline {
                stats.exhaustive = false;
                stats.cap_hit = Some(format!("time cap in {} after {} of {} workloads", label, n_wl, spec.workloads.len()));
                continue 'cfgs;
            }
            let jobs: Vec<Job> = wchunk
                .iter()
                .map(|w| {
                    jid += 1;
                    Job {
                        id: jid,
                        cfg: cfg.clone(),
                        ops: w.clone(),
                        want_digest: false,
                        digest_each: false,
                        want_listing: true,
                        isolate: true,
                        trace: true,
                        pre_image: vec![],
                        faults: vec![],
                sched: None,
                    }
                })
                .collect();
            let results = pool.run(jobs.clone());
            // 2) crash states of every workload
            let mut rec_jobs: Vec<Job> = Vec::new();
            let mut rec_meta: Vec<(usize, CrashState)> = Vec::new();
            for (wi, (job, res)) in jobs.iter().zip(results.iter()).enumerate() {
                n_wl += 1;
                stats.transitions += 1;
                if res.status != "ok" || res.obs.len() != job.ops.len() {
                    stats.machinery_errors.push(format!("workload did not complete ({}): {}", res.status, hist_str(&job.ops)));
                    continue;
                }
                let mut capped = false;
                let states = if spec.power_loss {
                    power_loss_states(&res.trace, 10, &mut capped)
                } else {
                    process_crash_states(&res.trace, 6, &mut capped)
                };
                if capped {
                    stats.cap_hit = Some("subset enumeration capped for a batch with more than 6 writes / more than 10 volatile mutations: prefixes, suffixes, single inclusions and omissions only".into());
                }
                // recorder conformance: the complete trace must reproduce the final directory
                {
                    let full: Vec<Ev> = res.trace.iter().filter(|e| !matches!(e, Ev::BatchSubmit { .. } | Ev::BatchDone)).cloned().collect();
                    jid += 1;
                    rec_jobs.push(Job {
                        id: jid,
                        cfg: cfg.clone(),
                        ops: vec![Op::Use { inst: 0 }],
                        want_digest: false,
                        digest_each: false,
                        want_listing: true,
                        isolate: false,
                        trace: false,
                        pre_image: full,
                        faults: vec![],
                sched: None,
                    });
                    rec_meta.push((wi, CrashState { p: usize::MAX, applied: vec![], desc: "conformance".into() }));
                }
                let mut seen: HashSet<u64> = HashSet::new();
                for st in states {
                    let applied = if spec.power_loss { sanitize_volatile(&st.applied) } else { st.applied.clone() };
                    let key = fnv64(serde_json::to_string(&(&applied, exp_key(&res.trace, st.p))).unwrap().as_bytes());
                    if !seen.insert(key) {
                        continue;
                    }
                    jid += 1;
                    rec_jobs.push(Job {
                        id: jid,
                        cfg: cfg.clone(),
                        ops: vec![Op::Drain { t: 0 }, Op::Drain { t: 1 }, Op::Drain { t: 2 }],
                        want_digest: false,
                        digest_each: false,
                        want_listing: false,
                        isolate: false,
                        trace: false,
                        pre_image: applied.clone(),
                        faults: vec![],
                sched: None,
                    });
                    rec_meta.push((wi, CrashState { p: st.p, applied, desc: st.desc }));
                }
            }
            // 3) recover every crash state and judge it
            for (cj, cm) in rec_jobs.chunks(4000).zip(rec_meta.chunks(4000)) {
                let rres = pool.run(cj.to_vec());
                for ((rjob, rr), (wi, st)) in cj.iter().zip(rres.iter()).zip(cm.iter()) {
                    let wjob = &jobs[*wi];
                    let wres = &results[*wi];
                    if st.p == usize::MAX {
                        // conformance: every file of the workload's final directory must be
                        // reproduced byte-for-byte by replaying the complete trace
                        let want: Vec<&String> = wres.listings.last().map(|l| l.iter().collect()).unwrap_or_default();
                        let got: HashSet<&String> = rr.listings.last().map(|l| l.iter().collect()).unwrap_or_default();
                        for w in want {
                            if w.ends_with("|dir|0") || w.contains("topic_clean_index") {
                                continue;
                            }
                            if !got.contains(w) {
                                stats.machinery_errors.push(format!(
                                    "recorder non-conformance: {} of the workload's final directory is not reproduced by the trace ({})",
                                    w,
                                    hist_str(&wjob.ops)
                                ));
                                break;
                            }
                        }
                        continue;
                    }
                    stats.transitions += 1;
                    n_states += 1;
                    let mut bad: Option<(String, String, Option<bool>)> = None;
                    if rr.status.starts_with("internal:open-failed") {
                        bad = Some(("recovery.failed".into(), format!("reopening the crash state failed: {}", rr.status), None));
                    } else if rr.status.starts_with("internal") {
                        stats.machinery_errors.push(format!("{}: recovery of {}", rr.status, hist_str(&wjob.ops)));
                        continue;
                    } else if rr.status != "ok" {
                        bad = Some(("recovery.crash".into(), format!("recovery process {}", rr.status), None));
                    } else {
                        let ex = expectations(cfg, &wjob.ops, &wres.obs, &wres.trace, st.p, geom.max_alloc);
                        for t in 0..3u8 {
                            let (log, lo, hi, fl) = ex.per_topic.get(&t).cloned().unwrap();
                            let d: Vec<Ent> = match &rr.obs[t as usize].res {
                                Res::Many(v) => v.clone(),
                                Res::Panic(m) => {
                                    bad = Some(("recovery.panic".into(), format!("drain panicked: {}", m), None));
                                    break;
                                }
                                other => {
                                    bad = Some(("recovery.err".into(), format!("drain -> {:?}", other), None));
                                    break;
                                }
                            };
                            outcomes.insert(fnv64(format!("{}:{}:{}", t, d.len(), log.len()).as_bytes()));
                            let (ok, partial) = check_drain(&d, &log, lo, hi, &fl);
                            if !ok {
                                bad = Some((
                                    "crash.content".into(),
                                    format!(
                                        "topic {}: recovered {:?} (lens) but acknowledged log has lens {:?}, cursor allowed in {}..={}, in-flight lens {:?}",
                                        TOPICS[t as usize],
                                        d.iter().map(|e| e.len).collect::<Vec<_>>(),
                                        log.iter().map(|e| e.len).collect::<Vec<_>>(),
                                        lo,
                                        hi,
                                        fl.iter().map(|e| e.len).collect::<Vec<_>>()
                                    ),
                                    None,
                                ));
                                break;
                            }
                            if spec.prop == "C08" {
                                if let Some(is_prefix) = partial {
                                    bad = Some((
                                        "batch.torn".into(),
                                        format!(
                                            "topic {}: {} of the {} entries of the in-flight batch were recovered ({})",
                                            TOPICS[t as usize],
                                            d.len() - (log.len() - lo.min(log.len())).min(d.len()),
                                            fl.len(),
                                            if is_prefix { "a prefix in write order" } else { "not a prefix" }
                                        ),
                                        Some(is_prefix),
                                    ));
                                    break;
                                }
                            }
                        }
                        let _ = ex.inflight;
                    }
                    match bad {
                        None => {
                            stats.states += 1;
                            if stats.samples.len() < 6 && stats.states % 499 == 1 {
                                stats.samples.push(format!("[{}] {} || crash {}", label, hist_str(&wjob.ops), st.desc));
                            }
                        }
                        Some((class, detail, torn_prefix)) => {
                            // known finding?
                            let kid = known_crash(kf, spec.prop, &class, torn_prefix, &wres.trace, st.p);
                            if let Some(kid) = kid {
                                stats.pruned_known += 1;
                                let c = stats.known_hits.entry(kid.clone()).or_insert(0);
                                *c += 1;
                                if *c == 1 {
                                    known_lines.push(format!(
                                        "KNOWN-FINDING: property={} {} [{}] e.g. [{}] {} || crash {} -> {}",
                                        spec.prop,
                                        kf.title(&kid),
                                        kid,
                                        label,
                                        hist_str(&wjob.ops),
                                        st.desc,
                                        detail
                                    ));
                                }
                                continue;
                            }
                            if violations.len() < 5 {
                                // deterministic? recover the same image twice more
                                let again = pool.run(vec![rjob.clone(), rjob.clone()]);
                                if !again.iter().all(|a| a.status == rr.status && a.obs == rr.obs) {
                                    stats.nondeterminism += 1;
                                    stats.machinery_errors.push(format!("crash-state verdict not reproducible: {} || {}", hist_str(&wjob.ops), st.desc));
                                    continue;
                                }
                                let mut ops = wjob.ops.clone();
                                ops.push(Op::Drain { t: 0 });
                                let v = Violation {
                                    prop: spec.prop.to_string(),
                                    cfg: cfg.clone(),
                                    ops: wjob.ops.clone(),
                                    class: class.clone(),
                                    detail: format!("crash state: {}; {}", st.desc, detail),
                                    obs: rr.obs.clone(),
                                    status: rr.status.clone(),
                                };
                                let path = write_replay_crash(&v, &st.applied);
                                violations.push((v, path));
                            }
                        }
                    }
                }
            }
            if violations.len() >= 5 {
                break 'cfgs;
            }
        }
        stats.per_config.insert(label, (n_states, n_wl));
    }
    stats.distinct_outcomes = outcomes.len();
    stats.violations = violations.len() as u64;
    stats.max_depth_completed = spec.workloads.iter().map(|w| w.len()).max().unwrap_or(0);
    Outcome { stats, violations, known_lines }
}

fn exp_key(trace: &[Ev], p: usize) -> Vec<(usize, bool)> {
    trace[..p.min(trace.len())].iter().filter_map(|e| if let Ev::Mark { op, end } = e { Some((*op, *end)) } else { None }).collect()
}

fn write_replay_crash(v: &Violation, image: &[Ev]) -> String {
    let path = write_replay(v);
    if let Ok(text) = std::fs::read_to_string(&path) {
        if let Ok(mut j) = serde_json::from_str::<serde_json::Value>(&text) {
            j["engine"] = serde_json::Value::String("walmc-crash".into());
            j["crash_image"] = serde_json::to_value(image).unwrap_or_default();
            let _ = std::fs::write(&path, serde_json::to_string_pretty(&j).unwrap());
        }
    }
    path
}

/// Known findings of the crash engine.
fn known_crash(kf: &Known, prop: &str, class: &str, torn_prefix: Option<bool>, trace: &[Ev], p: usize) -> Option<String> {
    // K-C08-torn-batch: crash point inside the window of one batch append call (after it
    // began, before it returned) and the recovered part of the batch is a non-empty strict
    // subset of its entries, in batch order.
    if prop == "C08" && class == "batch.torn" && torn_prefix.is_some() && kf.open("K-C08-torn-batch", prop) {
        // inside a batch op: an append-type Mark begin without end before p
        let mut open_ops: Vec<usize> = vec![];
        for e in &trace[..p.min(trace.len())] {
            if let Ev::Mark { op, end } = e {
                if *end {
                    open_ops.retain(|o| o != op);
                } else {
                    open_ops.push(*op);
                }
            }
        }
        if !open_ops.is_empty() {
            return Some("K-C08-torn-batch".into());
        }
    }
    None
}
