//! C14: every namespace key, through every constructor, maps to a private directory
//! strictly inside the data dir. Exhaustive enumeration of keys over a 9-symbol
//! alphabet up to a length bound, plus specials.
use crate::explore::{write_replay, Outcome, Stats, Violation};
use crate::ops::*;
use crate::pool::Pool;

const ALPHA: [&str; 9] = ["a", "-", "_", ".", "/", " ", "\0", "é", "\\"];

fn keys(maxlen: usize) -> Vec<String> {
    let mut out = vec![String::new()];
    let mut cur = vec![String::new()];
    for _ in 0..maxlen {
        let mut nxt = Vec::new();
        for k in cur.iter() {
            for a in ALPHA.iter() {
                nxt.push(format!("{}{}", k, a));
            }
        }
        out.extend(nxt.iter().cloned());
        cur = nxt;
    }
    for s in [".", "..", "...", "../x", "a/../b", "./a", "a/.", "..a", "a.."] {
        out.push(s.to_string());
    }
    out.push("a".repeat(300));
    out.sort();
    out.dedup();
    out
}

/// None = fine; Some(description) = a file was created outside data/<component>/
fn bad_listing(listing: &[String]) -> Option<String> {
    for e in listing {
        let path = e.split('|').next().unwrap_or("");
        if path == "sentinel" || path == "data/" {
            continue;
        }
        let is_dir = path.ends_with('/');
        let comps: Vec<&str> = path.trim_end_matches('/').split('/').collect();
        if comps[0] != "data" {
            return Some(format!("{} was created outside the data directory", path));
        }
        if comps.len() == 2 && !is_dir {
            return Some(format!("{} was created in the data directory itself", path));
        }
    }
    None
}

pub fn run(pool: &Pool, tier: &str) -> Outcome {
    let thorough = tier == "thorough";
    let mut stats = Stats { exhaustive: true, ..Default::default() };
    let mut violations = Vec::new();
    let cfg = Config::new(Consistency::Strict, Backend::Fd);
    // (ctor, max key length, isolate)
    let plan: Vec<(u8, usize, bool)> = if thorough {
        vec![(4, 4, false), (0, 3, true), (1, 3, true), (2, 3, true), (3, 3, true), (5, 3, true), (6, 3, true)]
    } else {
        vec![(4, 3, false), (0, 2, true), (1, 2, true), (2, 2, true), (3, 2, true), (5, 2, true), (6, 2, true)]
    };
    let mut jid = 0;
    let mut outcomes = std::collections::HashSet::new();
    let mut dirs = std::collections::HashSet::new();
    for (ctor, maxlen, isolate) in plan {
        let ks = keys(maxlen);
        let jobs: Vec<Job> = ks
            .iter()
            .map(|k| {
                jid += 1;
                Job {
                    id: jid,
                    cfg: cfg.clone(),
                    ops: vec![Op::OpenKey { key: k.clone(), ctor }, Op::Append { t: 0, len: 1 }],
                    want_digest: false,
                    digest_each: false,
                    want_listing: true,
                    isolate,
                    trace: false,
                    pre_image: vec![],
                    faults: vec![],
                sched: None,
                }
            })
            .collect();
        for chunk in jobs.chunks(2000) {
            let results = pool.run(chunk.to_vec());
            for (job, res) in chunk.iter().zip(results.iter()) {
                stats.transitions += 1;
                if res.status.starts_with("internal") {
                    stats.machinery_errors.push(format!("{}: {}", res.status, hist_str(&job.ops)));
                    continue;
                }
                let mut bad: Option<(String, String)> = None;
                if res.status != "ok" {
                    bad = Some(("crash".into(), format!("engine process {}", res.status)));
                }
                for l in res.listings.iter() {
                    if let Some(msg) = bad_listing(l) {
                        bad = Some(("path.escape".into(), msg));
                        break;
                    }
                }
                if let Some(first) = res.obs.first() {
                    outcomes.insert(format!("{:?}", std::mem::discriminant(&first.res)));
                    if let Res::Panic(m) = &first.res {
                        bad = Some(("open.panic".into(), m.clone()));
                    }
                }
                if let Some(l) = res.listings.last() {
                    for e in l {
                        let p = e.split('|').next().unwrap_or("");
                        if p.ends_with('/') && p.matches('/').count() == 2 {
                            dirs.insert(p.to_string());
                        }
                    }
                }
                match bad {
                    Some((class, detail)) => {
                        if violations.len() < 6 {
                            let v = Violation {
                                prop: "C14".into(),
                                cfg: cfg.clone(),
                                ops: job.ops.clone(),
                                class,
                                detail,
                                obs: res.obs.clone(),
                                status: res.status.clone(),
                            };
                            let path = write_replay(&v);
                            violations.push((v, path));
                        }
                    }
                    None => {
                        stats.states += 1;
                        if stats.samples.len() < 8 && stats.states % 211 == 1 {
                            stats.samples.push(format!(
                                "{} -> {:?}",
                                hist_str(&job.ops),
                                res.listings.last().map(|l| l.iter().filter(|e| e.ends_with("|dir|0")).cloned().collect::<Vec<_>>())
                            ));
                        }
                    }
                }
            }
        }
        stats.per_config.insert(format!("ctor{} keys<=len{}", ctor, maxlen), (ks.len() as u64, ks.len() as u64));
    }
    stats.distinct_outcomes = dirs.len();
    stats.violations = violations.len() as u64;
    stats.max_depth_completed = 2;
    Outcome { stats, violations, known_lines: vec![] }
}
