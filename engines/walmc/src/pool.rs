//! Parent-side pool of worker processes.
use crate::ops::*;
use std::collections::VecDeque;
use std::io::{BufRead, BufReader, Write};
use std::process::{Child, ChildStdin, ChildStdout, Command, Stdio};
use std::sync::{Arc, Mutex};

pub struct Pool {
    pub n: usize,
    exe: std::path::PathBuf,
    idle: Mutex<Vec<W>>,
}

struct W {
    child: Child,
    stdin: ChildStdin,
    stdout: BufReader<ChildStdout>,
}

fn spawn(exe: &std::path::Path) -> W {
    let mut child = Command::new(exe)
        .arg("worker")
        .stdin(Stdio::piped())
        .stdout(Stdio::piped())
        .stderr(Stdio::null())
        .spawn()
        .expect("spawn worker");
    let stdin = child.stdin.take().unwrap();
    let stdout = BufReader::new(child.stdout.take().unwrap());
    W { child, stdin, stdout }
}

impl Pool {
    pub fn new() -> Self {
        let n = std::env::var("WALMC_JOBS")
            .ok()
            .and_then(|s| s.parse().ok())
            .unwrap_or_else(|| std::thread::available_parallelism().map(|n| n.get().min(8)).unwrap_or(4));
        Pool { n, exe: std::env::current_exe().expect("current_exe"), idle: Mutex::new(Vec::new()) }
    }

    fn take(&self) -> W {
        if let Some(w) = self.idle.lock().unwrap().pop() {
            return w;
        }
        spawn(&self.exe)
    }

    fn one(w: &mut W, exe: &std::path::Path, job: &Job) -> JobResult {
        let line = serde_json::to_string(job).unwrap();
        let mut ok = w.stdin.write_all(line.as_bytes()).is_ok()
            && w.stdin.write_all(b"\n").is_ok()
            && w.stdin.flush().is_ok();
        let mut resp = String::new();
        if ok {
            ok = matches!(w.stdout.read_line(&mut resp), Ok(n) if n > 0);
        }
        if ok {
            let r = serde_json::from_str::<JobResult>(&resp).unwrap_or_else(|e| JobResult {
                id: job.id,
                status: format!("internal:badresult:{}", e),
                ..Default::default()
            });
            if r.status == "timeout" && !job.isolate {
                // the worker has left; fall through to respawn
                let _ = w.child.kill();
                let _ = w.child.wait();
                *w = spawn(exe);
                return JobResult { id: job.id, status: "inproc:timeout".into(), ..Default::default() };
            }
            r
        } else {
            let _ = w.child.kill();
            let _ = w.child.wait();
            *w = spawn(exe);
            JobResult { id: job.id, status: "inproc:worker-died".into(), ..Default::default() }
        }
    }

    /// Execute all jobs; results are returned in job order. A non-isolated job whose
    /// worker died or hung is executed again isolated, so that the crash is attributed
    /// to that job alone.
    pub fn run(&self, jobs: Vec<Job>) -> Vec<JobResult> {
        let total = jobs.len();
        let queue: Arc<Mutex<VecDeque<(usize, Job)>>> =
            Arc::new(Mutex::new(jobs.into_iter().enumerate().collect()));
        let results: Arc<Mutex<Vec<Option<JobResult>>>> = Arc::new(Mutex::new((0..total).map(|_| None).collect()));
        let nthreads = self.n.min(total.max(1));
        std::thread::scope(|scope| {
            for _ in 0..nthreads {
                let queue = queue.clone();
                let results = results.clone();
                scope.spawn(move || {
                    let mut w = self.take();
                    loop {
                        let item = queue.lock().unwrap().pop_front();
                        let Some((idx, job)) = item else { break };
                        let mut r = Self::one(&mut w, &self.exe, &job);
                        if r.status.starts_with("inproc:") {
                            let mut j2 = job.clone();
                            j2.isolate = true;
                            r = Self::one(&mut w, &self.exe, &j2);
                            if r.status.starts_with("inproc:") {
                                r.status = "internal:worker-died".into();
                            }
                        }
                        results.lock().unwrap()[idx] = Some(r);
                    }
                    self.idle.lock().unwrap().push(w);
                });
            }
        });
        let mut g = results.lock().unwrap();
        g.iter_mut().map(|r| r.take().unwrap_or_default()).collect()
    }
}

impl Drop for Pool {
    fn drop(&mut self) {
        for mut w in self.idle.lock().unwrap().drain(..) {
            drop(w.stdin);
            let _ = w.child.wait();
        }
    }
}
