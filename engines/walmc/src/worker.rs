//! Worker process: single-threaded; forks one child per history segment so that every
//! execution starts from pristine process-global engine state.
use crate::exec;
use crate::ops::*;
use std::io::{BufRead, Write};
use std::os::unix::io::FromRawFd;
use std::path::{Path, PathBuf};

pub fn scratch_root() -> PathBuf {
    let base = if Path::new("/dev/shm").is_dir() {
        PathBuf::from("/dev/shm")
    } else {
        std::env::temp_dir()
    };
    base.join(format!("walmc.{}", std::process::id()))
}

fn timeout_ms() -> i32 {
    std::env::var("WALMC_TIMEOUT_MS").ok().and_then(|s| s.parse().ok()).unwrap_or(20_000)
}

/// Fork a child that runs `f(write_fd_as_File)`; parent collects lines until EOF or
/// timeout. Returns (lines, status).
pub fn fork_collect(f: impl FnOnce(&mut std::fs::File), timeout_ms: i32) -> (Vec<String>, String) {
    let mut fds = [0i32; 2];
    unsafe {
        if libc::pipe(fds.as_mut_ptr()) != 0 {
            return (vec![], "internal:pipe".into());
        }
    }
    let pid = unsafe { libc::fork() };
    if pid < 0 {
        return (vec![], "internal:fork".into());
    }
    if pid == 0 {
        unsafe {
            libc::close(fds[0]);
            // detach from the worker's stdin/stdout so the child can never corrupt the protocol
            let devnull = libc::open(b"/dev/null\0".as_ptr() as *const libc::c_char, libc::O_RDWR);
            if devnull >= 0 {
                libc::dup2(devnull, 0);
                libc::dup2(devnull, 1);
            }
        }
        let mut out = unsafe { std::fs::File::from_raw_fd(fds[1]) };
        f(&mut out);
        let _ = out.flush();
        unsafe { libc::_exit(0) };
    }
    unsafe { libc::close(fds[1]) };
    let mut buf: Vec<u8> = Vec::new();
    let mut status = String::new();
    let deadline = std::time::Instant::now() + std::time::Duration::from_millis(timeout_ms as u64);
    loop {
        let now = std::time::Instant::now();
        if now >= deadline {
            status = "timeout".into();
            break;
        }
        let remain = (deadline - now).as_millis() as i32;
        let mut pfd = libc::pollfd { fd: fds[0], events: libc::POLLIN, revents: 0 };
        let r = unsafe { libc::poll(&mut pfd, 1, remain.max(1)) };
        if r < 0 {
            let e = std::io::Error::last_os_error();
            if e.kind() == std::io::ErrorKind::Interrupted {
                continue;
            }
            status = "internal:poll".into();
            break;
        }
        if r == 0 {
            status = "timeout".into();
            break;
        }
        let mut tmp = [0u8; 65536];
        let n = unsafe { libc::read(fds[0], tmp.as_mut_ptr() as *mut libc::c_void, tmp.len()) };
        if n < 0 {
            let e = std::io::Error::last_os_error();
            if e.kind() == std::io::ErrorKind::Interrupted {
                continue;
            }
            status = "internal:read".into();
            break;
        }
        if n == 0 {
            break; // EOF
        }
        buf.extend_from_slice(&tmp[..n as usize]);
    }
    unsafe { libc::close(fds[0]) };
    if status == "timeout" {
        unsafe { libc::kill(pid, libc::SIGKILL) };
    }
    let mut st: i32 = 0;
    unsafe { libc::waitpid(pid, &mut st, 0) };
    if status.is_empty() {
        if libc::WIFSIGNALED(st) {
            status = format!("signal:{}", libc::WTERMSIG(st));
        } else if libc::WIFEXITED(st) && libc::WEXITSTATUS(st) != 0 {
            status = format!("exit:{}", libc::WEXITSTATUS(st));
        } else {
            status = "ok".into();
        }
    }
    let text = String::from_utf8_lossy(&buf);
    let lines: Vec<String> = text.lines().map(|s| s.to_string()).collect();
    (lines, status)
}

fn absorb(res: &mut JobResult, lines: Vec<String>) -> bool {
    let mut ended = false;
    for l in lines {
        let (tag, body) = l.split_at(1.min(l.len()));
        match tag {
            "O" => match serde_json::from_str::<Obs>(body) {
                Ok(o) => res.obs.push(o),
                Err(_) => {
                    res.status = "internal:parse".into();
                }
            },
            "D" => res.digests.push(body.to_string()),
            "L" => res.listings.push(serde_json::from_str(body).unwrap_or_default()),
            "F" => res.digest = Some(body.to_string()),
            "X" => {
                res.status = format!("internal:open-failed:{}", body);
            }
            "T" => {
                if let Ok(mut v) = serde_json::from_str::<Vec<Ev>>(body) {
                    res.trace.append(&mut v);
                }
            }
            "E" => ended = true,
            _ => {}
        }
    }
    ended
}

/// Non-isolated execution: the whole history runs inside this worker process.
pub fn run_job_inproc(job: &Job, dir: &Path) -> JobResult {
    let mut res = JobResult { id: job.id, status: "ok".into(), ..Default::default() };
    let _ = std::fs::remove_dir_all(dir);
    if std::fs::create_dir_all(dir).is_err() {
        res.status = "internal:mkdir".into();
        return res;
    }
    let mut lines: Vec<String> = Vec::new();
    exec::run_segment(dir, job, 0, job.ops.len(), true, |l| lines.push(l.to_string()));
    let ended = absorb(&mut res, lines);
    if !ended && res.status == "ok" {
        res.status = "internal:no-end".into();
    }
    let _ = std::fs::remove_dir_all(dir);
    res
}

pub fn run_job(job: &Job, dir: &Path) -> JobResult {
    let mut res = JobResult { id: job.id, status: "ok".into(), ..Default::default() };
    let _ = std::fs::remove_dir_all(dir);
    if std::fs::create_dir_all(dir).is_err() {
        res.status = "internal:mkdir".into();
        return res;
    }
    // split at Restart
    let mut bounds: Vec<(usize, usize)> = Vec::new();
    let mut start = 0usize;
    for (i, op) in job.ops.iter().enumerate() {
        if matches!(op, Op::Restart) {
            bounds.push((start, i));
            start = i + 1;
        }
    }
    bounds.push((start, job.ops.len()));
    let nseg = bounds.len();
    for (si, (from, to)) in bounds.into_iter().enumerate() {
        let last = si + 1 == nseg;
        let (lines, status) = fork_collect(
            |out| {
                exec::run_segment(dir, job, from, to, last, |line| {
                    let _ = out.write_all(line.as_bytes());
                    let _ = out.write_all(b"\n");
                });
            },
            timeout_ms(),
        );
        let ended = absorb(&mut res, lines);
        if status != "ok" || !ended {
            if res.status == "ok" {
                res.status = if status == "ok" { "exit:0-early".into() } else { status };
            }
            res.died_at = Some(res.obs.len());
            break;
        }
        if res.status != "ok" {
            break;
        }
    }
    let _ = std::fs::remove_dir_all(dir);
    res
}

static DEADLINE_MS: std::sync::atomic::AtomicU64 = std::sync::atomic::AtomicU64::new(0);
static CUR_JOB: std::sync::atomic::AtomicU64 = std::sync::atomic::AtomicU64::new(0);

fn now_ms() -> u64 {
    std::time::SystemTime::now().duration_since(std::time::UNIX_EPOCH).map(|d| d.as_millis() as u64).unwrap_or(0)
}

fn reexec() -> ! {
    use std::os::unix::process::CommandExt;
    let exe = std::env::current_exe().expect("current_exe");
    let err = std::process::Command::new(exe).arg("worker").exec();
    eprintln!("re-exec failed: {}", err);
    std::process::exit(3);
}

/// A pristine helper process, forked before this worker touches the engine. Isolated
/// jobs are forwarded to it, so the children it forks never inherit process-global engine
/// state (file-name clock, trackers, deletion channel) from in-process executions.
struct Zygote {
    to: std::fs::File,
    from: std::io::BufReader<std::fs::File>,
}

fn spawn_zygote(root: &Path) -> Option<Zygote> {
    let mut a = [0i32; 2]; // worker -> zygote
    let mut b = [0i32; 2]; // zygote -> worker
    unsafe {
        if libc::pipe2(a.as_mut_ptr(), libc::O_CLOEXEC) != 0 || libc::pipe2(b.as_mut_ptr(), libc::O_CLOEXEC) != 0 {
            return None;
        }
    }
    let pid = unsafe { libc::fork() };
    if pid < 0 {
        return None;
    }
    if pid == 0 {
        unsafe {
            libc::close(a[1]);
            libc::close(b[0]);
            let devnull = libc::open(b"/dev/null\0".as_ptr() as *const libc::c_char, libc::O_RDWR);
            if devnull >= 0 {
                libc::dup2(devnull, 0);
                libc::dup2(devnull, 1);
            }
        }
        let rd = unsafe { std::fs::File::from_raw_fd(a[0]) };
        let mut wr = unsafe { std::fs::File::from_raw_fd(b[1]) };
        let mut rd = std::io::BufReader::new(rd);
        let mut n = 0u64;
        let mut line = String::new();
        loop {
            line.clear();
            match rd.read_line(&mut line) {
                Ok(k) if k > 0 => {}
                _ => break,
            }
            let r = match serde_json::from_str::<Job>(line.trim_end()) {
                Ok(job) => {
                    n += 1;
                    run_job(&job, &root.join(format!("z{}", n)))
                }
                Err(e) => JobResult { status: format!("internal:badjob:{}", e), ..Default::default() },
            };
            let _ = writeln!(wr, "{}", serde_json::to_string(&r).unwrap());
            let _ = wr.flush();
        }
        unsafe { libc::_exit(0) };
    }
    unsafe {
        libc::close(a[0]);
        libc::close(b[1]);
    }
    Some(Zygote {
        to: unsafe { std::fs::File::from_raw_fd(a[1]) },
        from: std::io::BufReader::new(unsafe { std::fs::File::from_raw_fd(b[0]) }),
    })
}

pub fn worker_main() {
    use std::sync::atomic::Ordering;
    let root = scratch_root();
    let _ = std::fs::remove_dir_all(&root);
    let _ = std::fs::create_dir_all(&root);
    let mut zygote = spawn_zygote(&root);
    // watchdog for in-process jobs: a hung engine call cannot be interrupted, so report
    // a timeout for the job and leave; the pool re-runs the job isolated
    std::thread::spawn(|| loop {
        std::thread::sleep(std::time::Duration::from_millis(200));
        let d = DEADLINE_MS.load(Ordering::SeqCst);
        if d != 0 && now_ms() > d {
            let r = JobResult { id: CUR_JOB.load(Ordering::SeqCst), status: "timeout".into(), ..Default::default() };
            let line = format!("{}\n", serde_json::to_string(&r).unwrap());
            unsafe {
                libc::write(1, line.as_ptr() as *const libc::c_void, line.len());
                libc::_exit(3);
            }
        }
    });
    let recycle_after: u64 = std::env::var("WALMC_RECYCLE").ok().and_then(|s| s.parse().ok()).unwrap_or(250);
    let stdin = std::io::stdin();
    let stdout = std::io::stdout();
    let mut n = 0u64;
    let mut line = String::new();
    loop {
        line.clear();
        // strictly request/response, so no line is ever buffered across a re-exec
        let got = matches!(stdin.lock().read_line(&mut line), Ok(n) if n > 0);
        while line.ends_with('\n') {
            line.pop();
        }
        if !got {
            break;
        }
        if line.is_empty() {
            continue;
        }
        let job: Job = match serde_json::from_str(&line) {
            Ok(j) => j,
            Err(e) => {
                let r = JobResult { status: format!("internal:badjob:{}", e), ..Default::default() };
                let mut o = stdout.lock();
                let _ = writeln!(o, "{}", serde_json::to_string(&r).unwrap());
                let _ = o.flush();
                continue;
            }
        };
        n += 1;
        let dir = root.join(format!("x{}", n));
        let r = if job.isolate {
            let mut via: Option<JobResult> = None;
            if let Some(z) = zygote.as_mut() {
                let ok = writeln!(z.to, "{}", line).is_ok() && z.to.flush().is_ok();
                let mut resp = String::new();
                if ok && matches!(z.from.read_line(&mut resp), Ok(k) if k > 0) {
                    via = serde_json::from_str::<JobResult>(&resp).ok();
                }
            }
            match via {
                Some(r) => r,
                None => {
                    // zygote lost: make a new one for the next job, run this one here
                    zygote = spawn_zygote(&root);
                    run_job(&job, &dir)
                }
            }
        } else {
            CUR_JOB.store(job.id, Ordering::SeqCst);
            DEADLINE_MS.store(now_ms() + timeout_ms() as u64, Ordering::SeqCst);
            let r = if job.sched.is_some() {
                let _ = std::fs::remove_dir_all(&dir);
                let _ = std::fs::create_dir_all(&dir);
                let so = crate::sched::run(&dir, &job);
                let _ = std::fs::remove_dir_all(&dir);
                JobResult { id: job.id, status: if so.status.starts_with("internal") { so.status.clone() } else { "ok".into() }, sched: Some(so), ..Default::default() }
            } else {
                run_job_inproc(&job, &dir)
            };
            DEADLINE_MS.store(0, Ordering::SeqCst);
            r
        };
        let panicked = r.obs.iter().any(|o| matches!(o.res, Res::Panic(_)))
            || r.sched.as_ref().map(|s| s.status != "ok" || s.results.iter().flatten().any(|x| matches!(x.0, Res::Panic(_)))).unwrap_or(false);
        {
            let mut o = stdout.lock();
            let _ = writeln!(o, "{}", serde_json::to_string(&r).unwrap());
            let _ = o.flush();
        }
        if !job.isolate && (panicked || n >= recycle_after) {
            let _ = std::fs::remove_dir_all(&root);
            reexec();
        }
    }
    let _ = std::fs::remove_dir_all(&root);
}
