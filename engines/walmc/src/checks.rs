//! Per-property specifications for the sequential explorer, and the `check` front end.
use crate::explore::{explore, Outcome, Spec, Stats};
use crate::known::Known;
use crate::model::Model;
use crate::ops::*;
use crate::pool::Pool;
use std::time::Instant;

pub struct Sizes {
    pub bs: usize,
    pub half: usize,
    pub fill: usize,
    pub over: usize,
    pub onehalf: usize,
    pub max_alloc: usize,
}

pub fn sizes() -> Sizes {
    let g = walrus_rust::wal::verif::geometry();
    let bs = g.block_size as usize;
    let h = g.prefix_meta_size;
    Sizes { bs, half: bs / 2 - h, fill: bs - h, over: bs - h + 1, onehalf: bs * 3 / 2 - h, max_alloc: g.max_alloc as usize }
}

pub fn tier_is_thorough(tier: &str) -> bool {
    tier == "thorough"
}

fn strict_fd() -> Config {
    Config::new(Consistency::Strict, Backend::Fd)
}

pub fn all_cfgs() -> Vec<Config> {
    let mut v = Vec::new();
    for cons in [Consistency::Strict, Consistency::Alo(1), Consistency::Alo(3)] {
        for be in [Backend::Fd, Backend::Mmap] {
            for fs in [Fsync::No, Fsync::Each] {
                let mut c = Config::new(cons, be);
                c.fsync = fs;
                v.push(c);
            }
        }
    }
    v
}

pub fn spec_for(prop: &str, tier: &str) -> Option<Spec> {
    let s = sizes();
    let thorough = tier_is_thorough(tier);
    match prop {
        "C01" => {
            let (half, fill, over, onehalf, bs) = (s.half, s.fill, s.over, s.onehalf, s.bs);
            let cfgs = if thorough {
                all_cfgs()
            } else {
                vec![strict_fd(), Config::new(Consistency::Alo(3), Backend::Mmap)]
            };
            Some(Spec {
                prop: "C01",
                cfgs,
                roots: vec![
                    vec![],
                    // one sealed block + tail
                    vec![Op::Append { t: 0, len: half }, Op::Append { t: 0, len: half }, Op::Append { t: 0, len: 128 }],
                    // cursor in the tail, other topic interleaved in the file
                    vec![
                        Op::Append { t: 0, len: 1 },
                        Op::Append { t: 1, len: half },
                        Op::Append { t: 0, len: 129 },
                        Op::ReadNext { t: 0, ckpt: true },
                    ],
                ],
                alphabet: Box::new(move |_m: &Model, _h: &[Op]| {
                    let mut v = vec![
                        Op::Append { t: 0, len: 0 },
                        Op::Append { t: 0, len: 1 },
                        Op::Append { t: 0, len: 128 },
                        Op::Append { t: 0, len: half },
                        Op::Append { t: 0, len: fill },
                        Op::Append { t: 0, len: over },
                        Op::Append { t: 1, len: half },
                        Op::Batch { t: 0, lens: vec![1, half] },
                        Op::Batch { t: 0, lens: vec![half, half, 127] },
                        Op::Batch { t: 0, lens: vec![0, 0] },
                        Op::ReadNext { t: 0, ckpt: true },
                        Op::ReadNext { t: 1, ckpt: true },
                        Op::BatchRead { t: 0, budget: 0, ckpt: true, start: None },
                        Op::BatchRead { t: 0, budget: 1, ckpt: true, start: None },
                        Op::BatchRead { t: 0, budget: 257, ckpt: true, start: None },
                        Op::BatchRead { t: 0, budget: bs, ckpt: true, start: None },
                        Op::BatchRead { t: 0, budget: usize::MAX, ckpt: true, start: None },
                    ];
                    if thorough {
                        v.push(Op::Append { t: 0, len: onehalf });
                        v.push(Op::Append { t: 0, len: 127 });
                        v.push(Op::BatchRead { t: 1, budget: 128, ckpt: true, start: None });
                    }
                    v
                }),
                max_depth: if thorough { 5 } else { 3 },
                owned: vec!["read.order", "read.empty", "read.err", "read.panic", "crash"],
                dedup: true,
                time_cap_s: if thorough { 1100.0 } else { 45.0 },
                extra: None,
                digest_each: false,
                want_listing: false,
                isolate: false,
            })
        }
        _ => None,
    }
}

pub fn write_evidence(prop: &str, tier: &str, seed: i64, wall: f64, out: &Outcome, level: &str, rule: &str, assumptions: &[&str]) {
    let st: &Stats = &out.stats;
    let mut samples: Vec<serde_json::Value> = st.samples.iter().map(|s| serde_json::Value::String(s.clone())).collect();
    if samples.is_empty() {
        samples.push(serde_json::Value::String("(no state survived; see violations)".into()));
    }
    let ev = serde_json::json!({
        "property_id": prop,
        "tier": tier,
        "seed": seed,
        "level": level,
        "wall_s": wall,
        "violations": st.violations,
        "coverage": {
            "states": st.states,
            "transitions": st.transitions,
            "traces_validated_against_impl": st.transitions,
            "evaluations": st.transitions,
            "distinct_nontrivial": st.states,
            "rule": rule,
            "samples": samples,
            "exhaustive": st.exhaustive,
            "cap_hit": st.cap_hit,
            "merged_states": st.merged,
            "max_depth_completed": st.max_depth_completed,
            "depth_reached": st.depth_reached,
            "distinct_outcomes_of_last_step": st.distinct_outcomes,
            "pruned_behind_known_findings": st.pruned_known,
            "pruned_foreign_discrepancy": st.pruned_foreign,
            "foreign_discrepancy_classes": st.foreign_classes,
            "known_finding_hits": st.known_hits,
            "per_config_states_transitions": st.per_config,
            "nondeterministic_replays": st.nondeterminism,
            "machinery_errors": st.machinery_errors,
            "geometry": format!("{:?}", walrus_rust::wal::verif::geometry()),
            "explanation": "every transition is an execution of the real engine in a pristine forked process, so transitions == traces validated against the implementation",
        },
        "assumptions": assumptions,
    });
    let _ = std::fs::create_dir_all("/verif/evidence");
    let path = format!("/verif/evidence/{}.json", prop);
    std::fs::write(&path, serde_json::to_string_pretty(&ev).unwrap()).expect("write evidence");
}

/// Returns the process exit code.
pub fn run_check(prop: &str, tier: &str) -> i32 {
    let t0 = Instant::now();
    let seed: i64 = std::env::var("VERIF_SEED").ok().and_then(|s| s.parse().ok()).unwrap_or(0);
    let kf = Known::load();
    let pool = Pool::new();
    let Some(spec) = spec_for(prop, tier) else {
        eprintln!("no sequential spec for {}", prop);
        return 2;
    };
    let out = explore(&pool, &spec, &kf);
    let wall = t0.elapsed().as_secs_f64();
    let rule = format!(
        "BFS over op sequences (alphabet and roots in DESIGN.md section {}), depth <= {}, one execution of the real engine per transition; a state is distinct when (engine digest, model state) is new; non-trivial = survived the oracle and was not merged",
        prop, spec.max_depth
    );
    write_evidence(
        prop,
        tier,
        seed,
        wall,
        &out,
        "model_checking",
        &rule,
        &[
            "small geometry (2 KiB blocks, 4 blocks per file) stands for the real constants; engine code is parametric in them",
            "payload alphabet and budget classes as listed; values outside are not explored",
            "the executor child is single-threaded apart from the engine's own background threads",
        ],
    );
    for l in out.known_lines.iter() {
        println!("{}", l);
    }
    println!(
        "{} {}: states={} transitions={} merged={} depth_completed={} exhaustive={} outcomes={} pruned_known={} pruned_foreign={} wall={:.1}s",
        prop,
        tier,
        out.stats.states,
        out.stats.transitions,
        out.stats.merged,
        out.stats.max_depth_completed,
        out.stats.exhaustive,
        out.stats.distinct_outcomes,
        out.stats.pruned_known,
        out.stats.pruned_foreign,
        wall
    );
    if !out.stats.machinery_errors.is_empty() {
        for m in out.stats.machinery_errors.iter().take(5) {
            eprintln!("machinery: {}", m);
        }
    }
    if !out.violations.is_empty() {
        for (v, path) in out.violations.iter() {
            println!("VIOLATION property={} replay={}", prop, path);
            println!("  [{}] {} :: {} -> {}", v.cfg.label(), hist_str(&v.ops), v.class, v.detail);
        }
        return 1;
    }
    if out.stats.nondeterminism > 0 && out.stats.states == 0 {
        return 2;
    }
    0
}
