//! Per-property specifications for the sequential explorer, and the `check` front end.
use crate::explore::{explore, Outcome, Spec, Stats};
use crate::known::Known;
use crate::model::Model;
use crate::ops::*;
use crate::pool::Pool;
use std::time::Instant;

pub struct Sizes {
    pub bs: usize,
    pub half: usize,
    pub fill: usize,
    pub over: usize,
    pub onehalf: usize,
    pub max_alloc: usize,
}

pub fn sizes() -> Sizes {
    let g = walrus_rust::wal::verif::geometry();
    let bs = g.block_size as usize;
    let h = g.prefix_meta_size;
    Sizes { bs, half: bs / 2 - h, fill: bs - h, over: bs - h + 1, onehalf: bs * 3 / 2 - h, max_alloc: g.max_alloc as usize }
}

pub fn tier_is_thorough(tier: &str) -> bool {
    tier == "thorough"
}

fn strict_fd() -> Config {
    Config::new(Consistency::Strict, Backend::Fd)
}

pub fn all_cfgs() -> Vec<Config> {
    let mut v = Vec::new();
    for cons in [Consistency::Strict, Consistency::Alo(1), Consistency::Alo(3)] {
        for be in [Backend::Fd, Backend::Mmap] {
            for fs in [Fsync::No, Fsync::Each] {
                let mut c = Config::new(cons, be);
                c.fsync = fs;
                v.push(c);
            }
        }
    }
    v
}

/// C01, second family: every layout of 3 (thorough 4) entries over {small (< 128), 128, medium,
/// large} - which decides by itself which entries end up in sealed blocks and which in the
/// tail - drained by repeated consuming batch reads with one budget from a menu built around
/// the entry sizes (each size, one less, one more, sums of two). The budget decides where a
/// read has to stop inside a block; the FIFO model decides whether anything was skipped.
pub fn c01_product_spec(tier: &str) -> Spec {
    let s = sizes();
    let thorough = tier_is_thorough(tier);
    let small = 10usize;
    let mid = s.bs * 3 / 10; // 614 of 2048
    let big = s.bs - 2 * s.bs / 8 - small - 26; // 1500 of 2048: small + big fill a block, medium does not fit behind them
    let menu = vec![small, 128, mid, big];
    let mut roots: Vec<Vec<Op>> = vec![];
    let mut cur: Vec<Vec<usize>> = vec![vec![]];
    for depth in 0..(if thorough { 4 } else { 3 }) {
        let mut nxt = vec![];
        for l in cur.iter() {
            for m in menu.iter() {
                let mut x = l.clone();
                x.push(*m);
                nxt.push(x);
            }
        }
        if depth >= 1 {
            for l in nxt.iter() {
                roots.push(l.iter().map(|len| Op::Append { t: 0, len: *len }).collect());
            }
        }
        cur = nxt;
    }
    // payload-based budgets, and header-inclusive ones (the planner counts header bytes, so
    // these end a planned range exactly on an entry boundary inside a block)
    let hd = s.bs - s.fill;
    let budgets: Vec<usize> = vec![small, 127, 128, 129, mid - 1, mid, mid + 1, mid + small, big - 1, big, big + 1, big + small, 2 * mid, small + hd, 128 + hd, mid + hd, big + hd, 2 * (mid + hd), mid + small + 2 * hd];
    Spec {
        prop: "C01",
        cfgs: if thorough { vec![strict_fd(), Config::new(Consistency::Strict, Backend::Mmap), Config::new(Consistency::Alo(2), Backend::Fd)] } else { vec![strict_fd()] },
        roots,
        alphabet: Box::new(move |_m: &Model, h: &[Op]| {
            // the first read picks the budget, later reads repeat it
            match h.iter().rev().find_map(|o| if let Op::BatchRead { budget, .. } = o { Some(*budget) } else { None }) {
                Some(b) => vec![Op::BatchRead { t: 0, budget: b, ckpt: true, start: None }],
                None => budgets.iter().map(|b| Op::BatchRead { t: 0, budget: *b, ckpt: true, start: None }).collect(),
            }
        }),
        max_depth: if thorough { 4 } else { 3 },
        owned: vec!["read.order", "read.empty", "read.err", "read.panic", "crash"],
        dedup: false,
        time_cap_s: if thorough { 300.0 } else { 12.0 },
        extra: None,
        digest_each: false,
        want_listing: false,
        isolate: false,
        owns_if: None,
        diff_cfg: None,
        probe: None,
        tails: vec![vec![Op::Drain { t: 0 }]],
    }
}

/// Library of pre-states (histories that leave the engine in a shape some code path treats
/// specially). Every shape was added because a check or a seeded change needed it; the
/// thorough tiers of the restart and crash checks start from all of them.
pub fn prestates() -> Vec<(&'static str, Vec<Op>)> {
    let s = sizes();
    let h = s.bs - s.fill;
    let a = s.fill - h;
    let ap = |t: u8, len: usize| Op::Append { t, len };
    let rn = |t: u8| Op::ReadNext { t, ckpt: true };
    vec![
        ("tail2", vec![ap(0, 1), ap(0, 1)]),
        ("sealed+tail", vec![ap(0, s.half), ap(0, s.half), ap(0, 128), ap(0, 1)]),
        ("one-per-block", vec![ap(0, s.fill), ap(0, s.fill), ap(0, s.fill)]),
        ("two-per-block", vec![ap(0, s.half), ap(0, s.half), ap(0, s.half), ap(0, s.half), ap(0, s.half)]),
        ("zero-length-in-last-slot", vec![ap(0, a), ap(0, 0)]),
        ("two-unit-block-filled", vec![ap(0, s.over), ap(0, s.fill - 1)]),
        ("file-full", vec![ap(0, s.over), ap(1, s.half)]),
        ("hole-before-last-unit", vec![ap(0, 1), ap(1, s.half), ap(2, s.max_alloc)]),
        ("two-unit-block-at-file-end", vec![ap(0, 1), ap(1, s.half), ap(0, s.over)]),
        ("tail-progress-then-sealed", vec![ap(0, 1), ap(0, 1), rn(0), ap(0, s.half), ap(0, s.half), ap(0, 1)]),
        ("consumed-into-second-block", vec![ap(0, s.half), ap(0, s.half), ap(0, 128), Op::BatchRead { t: 0, budget: usize::MAX, ckpt: true, start: None }]),
        ("two-topics-interleaved", vec![ap(0, 1), ap(1, s.half), ap(0, 129), rn(0)]),
        ("batch-across-blocks", vec![Op::Batch { t: 0, lens: vec![s.half, s.half, 127] }]),
    ]
}

/// C06, second family: layouts that end exactly at (or one byte around) a block boundary -
/// a zero-length entry in the last header-sized slot, entries filling a one-unit or a two-unit
/// block to the byte - followed by every sequence of up to 2 (thorough 3) reads, appends,
/// reopen and restart, with drain tails before and after a further restart.
pub fn c06_boundary_spec(tier: &str) -> Spec {
    let s = sizes();
    let thorough = tier_is_thorough(tier);
    let h = s.bs - s.fill; // header size
    let a = s.fill - h; // leaves exactly one header-sized slot
    let ap = |len: usize| Op::Append { t: 0, len };
    let roots = vec![
        vec![ap(a), ap(0)],
        vec![ap(a - 1), ap(0)],
        vec![ap(a + 1), ap(0)],
        vec![ap(a), ap(0), ap(1)],
        vec![ap(a), ap(0), ap(0)],
        vec![ap(s.fill)],
        vec![ap(s.fill), ap(0)],
        vec![ap(s.half), ap(s.half)],
        vec![ap(s.over), ap(s.fill - 1)],
        vec![ap(s.over), ap(s.fill - 1 - h), ap(0)],
        vec![Op::Batch { t: 0, lens: vec![a, 0] }],
        vec![Op::Batch { t: 0, lens: vec![a, 0, 0] }],
        // a two-unit block that ends exactly at the end of its file
        vec![ap(1), Op::Append { t: 1, len: s.half }, ap(s.over)],
    ];
    let mut roots = roots;
    if thorough {
        roots.extend(prestates().into_iter().map(|p| p.1));
    }
    let max_restarts = if thorough { 3 } else { 2 };
    Spec {
        prop: "C06",
        cfgs: if thorough { vec![strict_fd(), Config::new(Consistency::Strict, Backend::Mmap), Config::new(Consistency::Alo(2), Backend::Fd)] } else { vec![strict_fd(), Config::new(Consistency::Strict, Backend::Mmap)] },
        roots,
        alphabet: Box::new(move |m: &Model, _h: &[Op]| {
            let mut v = vec![
                Op::ReadNext { t: 0, ckpt: true },
                Op::BatchRead { t: 0, budget: usize::MAX, ckpt: true, start: None },
                Op::BatchRead { t: 0, budget: 1, ckpt: true, start: None },
                Op::Append { t: 0, len: 0 },
                Op::Append { t: 0, len: 1 },
            ];
            if m.restarts < max_restarts {
                v.push(Op::Reopen);
                v.push(Op::Restart);
            }
            v
        }),
        max_depth: if thorough { 3 } else { 2 },
        owned: vec!["read.order", "read.empty", "read.err", "read.panic", "reopen.err", "reopen.panic", "count", "crash"],
        dedup: true,
        time_cap_s: if thorough { 300.0 } else { 12.0 },
        extra: None,
        digest_each: false,
        want_listing: false,
        isolate: false,
        owns_if: Some(Box::new(|_pre: &Model, ops: &[Op]| ops.iter().any(|o| matches!(o, Op::Reopen | Op::Restart)))),
        diff_cfg: None,
        probe: None,
        tails: vec![vec![Op::Drain { t: 0 }], vec![Op::Restart, Op::Drain { t: 0 }]],
    }
}

/// C13, second family: two namespaces whose WAL files carry the *same name* (created in the
/// same wall-clock millisecond by two different processes - the hooked clock is fixed), then
/// both opened in one process. Everything keyed by a bare file name instead of a path mixes
/// them up.
pub fn c13_same_names_spec(tier: &str) -> Option<Spec> {
    let mut sp = spec_for("C13", tier)?;
    let fill = sizes().fill;
    let mut c = Config::new(Consistency::Strict, Backend::Fd);
    c.gate_bg = true;
    c.clock = Clock::Fixed;
    let mut c2 = c.clone();
    c2.backend = Backend::Mmap;
    sp.cfgs = if tier_is_thorough(tier) { vec![c, c2] } else { vec![c] };
    let o = |inst: u8, key: u8, dir: u8| Op::Open { inst, key, dir };
    sp.roots = vec![
        vec![o(0, 0, 0), Op::Append { t: 0, len: fill }, Op::Close { inst: 0 }, Op::Restart, o(1, 1, 0), Op::Append { t: 0, len: 1 }, o(0, 0, 0)],
        vec![o(0, 0, 0), Op::Append { t: 0, len: fill }, Op::Close { inst: 0 }, Op::Restart, o(1, 0, 1), Op::Append { t: 0, len: 1 }, Op::Append { t: 1, len: 1 }, o(0, 0, 0)],
    ];
    sp.max_depth = if tier_is_thorough(tier) { 3 } else { 2 };
    sp.time_cap_s = if tier_is_thorough(tier) { 200.0 } else { 12.0 };
    Some(sp)
}

/// C16, second family: a topic spread over ten blocks (three files), so that one batch read
/// plans more ranges than any small fixed-size queue holds.
pub fn c16_many_ranges_spec(tier: &str) -> Option<Spec> {
    let mut sp = spec_for("C16", tier)?;
    let fill = sizes().fill;
    sp.roots = vec![(0..10).map(|_| Op::Append { t: 0, len: fill }).collect()];
    sp.max_depth = if tier_is_thorough(tier) { 3 } else { 2 };
    sp.time_cap_s = if tier_is_thorough(tier) { 200.0 } else { 12.0 };
    Some(sp)
}

/// Adds the outcome of a second exploration of the same property to the first.
pub fn merge_outcome(a: &mut crate::explore::Outcome, b: crate::explore::Outcome, label: &str) {
    a.stats.states += b.stats.states;
    a.stats.transitions += b.stats.transitions;
    a.stats.merged += b.stats.merged;
    a.stats.pruned_known += b.stats.pruned_known;
    a.stats.pruned_foreign += b.stats.pruned_foreign;
    a.stats.nondeterminism += b.stats.nondeterminism;
    a.stats.distinct_outcomes += b.stats.distinct_outcomes;
    a.stats.exhaustive &= b.stats.exhaustive;
    if a.stats.cap_hit.is_none() {
        a.stats.cap_hit = b.stats.cap_hit.map(|c| format!("{}: {}", label, c));
    }
    a.stats.machinery_errors.extend(b.stats.machinery_errors);
    for (k, v) in b.stats.per_config {
        a.stats.per_config.insert(format!("{}/{}", label, k), v);
    }
    for (k, v) in b.stats.known_hits {
        *a.stats.known_hits.entry(k).or_insert(0) += v;
    }
    for (k, v) in b.stats.foreign_classes {
        *a.stats.foreign_classes.entry(k).or_insert(0) += v;
    }
    a.stats.samples.extend(b.stats.samples.into_iter().take(3));
    a.stats.violations += b.stats.violations;
    a.violations.extend(b.violations);
    a.known_lines.extend(b.known_lines);
}

pub fn spec_for(prop: &str, tier: &str) -> Option<Spec> {
    let s = sizes();
    let thorough = tier_is_thorough(tier);
    match prop {
        "C01" => {
            let (half, fill, over, onehalf, bs, max_alloc) = (s.half, s.fill, s.over, s.onehalf, s.bs, s.max_alloc);
            let cfgs = if thorough {
                all_cfgs()
            } else {
                vec![strict_fd(), Config::new(Consistency::Alo(3), Backend::Mmap)]
            };
            Some(Spec {
                prop: "C01",
                cfgs,
                roots: vec![
                    vec![],
                    // one sealed block + tail
                    vec![Op::Append { t: 0, len: half }, Op::Append { t: 0, len: half }, Op::Append { t: 0, len: 128 }],
                    // cursor in the tail, other topic interleaved in the file
                    vec![
                        Op::Append { t: 0, len: 1 },
                        Op::Append { t: 1, len: half },
                        Op::Append { t: 0, len: 129 },
                        Op::ReadNext { t: 0, ckpt: true },
                    ],
                    // one sealed block + tail, everything consumed: the consumer's tail progress
                    // sits in the second block, which the next rotation (the topic's second) seals
                    vec![
                        Op::Append { t: 0, len: half },
                        Op::Append { t: 0, len: half },
                        Op::Append { t: 0, len: 128 },
                        Op::BatchRead { t: 0, budget: usize::MAX, ckpt: true, start: None },
                    ],
                ],
                alphabet: Box::new(move |_m: &Model, _h: &[Op]| {
                    let mut v = vec![
                        Op::Append { t: 0, len: 0 },
                        Op::Append { t: 0, len: 1 },
                        Op::Append { t: 0, len: 128 },
                        Op::Append { t: 0, len: half },
                        Op::Append { t: 0, len: fill },
                        Op::Append { t: 0, len: over },
                        // the largest entry the allocator accepts (four units: a file of its own)
                        Op::Append { t: 0, len: max_alloc - 256 },
                        Op::Append { t: 1, len: half },
                        Op::Batch { t: 0, lens: vec![1, half] },
                        Op::Batch { t: 0, lens: vec![half, half, 127] },
                        Op::Batch { t: 0, lens: vec![0, 0] },
                        Op::ReadNext { t: 0, ckpt: true },
                        Op::ReadNext { t: 1, ckpt: true },
                        Op::BatchRead { t: 0, budget: 0, ckpt: true, start: None },
                        Op::BatchRead { t: 0, budget: 1, ckpt: true, start: None },
                        Op::BatchRead { t: 0, budget: 257, ckpt: true, start: None },
                        Op::BatchRead { t: 0, budget: bs, ckpt: true, start: None },
                        Op::BatchRead { t: 0, budget: usize::MAX, ckpt: true, start: None },
                    ];
                    if thorough {
                        v.push(Op::Append { t: 0, len: onehalf });
                        v.push(Op::Append { t: 0, len: 127 });
                        v.push(Op::BatchRead { t: 1, budget: 128, ckpt: true, start: None });
                    }
                    v
                }),
                max_depth: if thorough { 5 } else { 3 },
                owned: vec!["read.order", "read.empty", "read.err", "read.panic", "crash"],
                dedup: true,
                time_cap_s: if thorough { 1100.0 } else { 45.0 },
                extra: None,
                digest_each: false,
                want_listing: false,
                isolate: false,
                owns_if: None,
                diff_cfg: None,
                probe: None,
                tails: vec![],
            })
        }
        "C03" => {
            let (half, fill, bs) = (s.half, s.fill, s.bs);
            // product mode: layouts (roots) x cursor positions (depth-1 reads) x budgets
            let menu: Vec<usize> = vec![0, 1, 127, 128, 129, half, fill];
            let mut roots: Vec<Vec<Op>> = vec![];
            let maxlen = if thorough { 4 } else { 2 };
            let mut cur: Vec<Vec<usize>> = vec![vec![]];
            for _ in 0..maxlen {
                let mut nxt = vec![];
                for l in cur.iter() {
                    for m in menu.iter() {
                        let mut x = l.clone();
                        x.push(*m);
                        nxt.push(x);
                    }
                }
                for l in nxt.iter() {
                    roots.push(l.iter().map(|len| Op::Append { t: 0, len: *len }).collect());
                }
                cur = nxt;
            }
            // sealed block(s) + tail layouts
            roots.push(vec![Op::Append { t: 0, len: half }, Op::Append { t: 0, len: half }, Op::Append { t: 0, len: 1 }]);
            roots.push(vec![
                Op::Append { t: 0, len: 127 },
                Op::Append { t: 0, len: 129 },
                Op::Append { t: 0, len: half },
                Op::Append { t: 0, len: half },
                Op::Append { t: 0, len: fill },
                Op::Append { t: 0, len: 0 },
                Op::Append { t: 0, len: 128 },
            ]);
            roots.push(vec![Op::Batch { t: 0, lens: vec![0, 0, 0, 0, 0, 0, 0, 0, 0] }, Op::Append { t: 0, len: 128 }]);
            // the consumer took part of the active block, then the writer rotated: the remembered
            // tail position belongs to a block that is sealed now
            roots.push(vec![
                Op::Append { t: 0, len: 200 },
                Op::Append { t: 0, len: 200 },
                Op::BatchRead { t: 0, budget: 200, ckpt: true, start: None },
                Op::Append { t: 0, len: fill },
            ]);
            roots.push(vec![
                Op::Append { t: 0, len: 200 },
                Op::Append { t: 0, len: 200 },
                Op::ReadNext { t: 0, ckpt: true },
                Op::Append { t: 0, len: fill },
                Op::Append { t: 0, len: 1 },
            ]);
            // a zero-length entry as the last entry of a sealed block (it ends exactly at the block end / not)
            roots.push(vec![Op::Append { t: 0, len: fill - 256 }, Op::Append { t: 0, len: 0 }, Op::Append { t: 0, len: 1 }]);
            roots.push(vec![Op::Append { t: 0, len: 200 }, Op::Append { t: 0, len: 0 }, Op::Append { t: 0, len: fill }]);
            // entry-cap family (2000): a topic holding 1999 / 2000 / 2001 / 4001 entries
            for extra in [0usize, 1, 2] {
                let mut r = vec![Op::BatchN { t: 0, n: 1999, len: 1 }];
                for _ in 0..extra {
                    r.push(Op::Append { t: 0, len: 0 });
                }
                roots.push(r);
            }
            if thorough {
                roots.push(vec![Op::BatchN { t: 0, n: 2000, len: 1 }, Op::BatchN { t: 0, n: 2000, len: 0 }, Op::Append { t: 0, len: 1 }]);
            }
            let budgets: Vec<usize> = vec![
                0, 1, 127, 128, 129, 255, 256, 257, 383, 384, 385, half - 1, half, half + 1, half + 256, bs, 4 * bs, usize::MAX,
            ];
            Some(Spec {
                prop: "C03",
                cfgs: if thorough {
                    vec![strict_fd(), Config::new(Consistency::Strict, Backend::Mmap), Config::new(Consistency::Alo(2), Backend::Fd)]
                } else {
                    vec![strict_fd()]
                },
                roots,
                alphabet: Box::new(move |_m: &Model, h: &[Op]| {
                    let mut v = vec![];
                    // position the cursor with single reads, then probe every budget
                    let reads_so_far = h.iter().filter(|o| matches!(o, Op::BatchRead { .. })).count();
                    if reads_so_far == 0 {
                        v.push(Op::ReadNext { t: 0, ckpt: true });
                    }
                    for b in budgets.iter() {
                        v.push(Op::BatchRead { t: 0, budget: *b, ckpt: true, start: None });
                        v.push(Op::BatchRead { t: 0, budget: *b, ckpt: false, start: None });
                    }
                    v
                }),
                max_depth: if thorough { 3 } else { 2 },
                owned: vec!["read.cap", "read.budget", "read.empty", "read.panic", "read.err", "crash"],
                dedup: true,
                time_cap_s: if thorough { 1100.0 } else { 50.0 },
                extra: None,
                digest_each: false,
                want_listing: false,
                isolate: false,
                owns_if: None,
                diff_cfg: None,
                probe: None,
                tails: vec![],
            })
        }
        "C15" | "C06" | "C04" | "C16" => {
            let (half, over, onehalf, max_alloc) = (s.half, s.over, s.onehalf, s.max_alloc);
            let prop_s: &'static str = match prop {
                "C15" => "C15",
                "C06" => "C06",
                "C04" => "C04",
                _ => "C16",
            };
            let with_restarts = prop != "C04" || true;
            let max_restarts = if thorough { 3 } else { 2 };
            let cfgs = match prop {
                "C15" => vec![strict_fd(), Config::new(Consistency::Alo(2), Backend::Mmap)],
                "C06" => {
                    if thorough {
                        vec![
                            strict_fd(),
                            Config::new(Consistency::Strict, Backend::Mmap),
                            Config::new(Consistency::Alo(1), Backend::Fd),
                            Config::new(Consistency::Alo(3), Backend::Fd),
                            {
                                let mut c = strict_fd();
                                c.clock = Clock::Backward;
                                c
                            },
                            {
                                let mut c = Config::new(Consistency::Alo(2), Backend::Mmap);
                                c.clock = Clock::Backward;
                                c
                            },
                        ]
                    } else {
                        vec![strict_fd(), Config::new(Consistency::Alo(3), Backend::Mmap), {
                            // the wall clock steps back between runs (a restart forgets the
                            // last file-name timestamp, as a new process does)
                            let mut c = strict_fd();
                            c.clock = Clock::Backward;
                            c
                        }]
                    }
                }
                "C04" => {
                    if thorough {
                        vec![strict_fd(), Config::new(Consistency::Strict, Backend::Mmap)]
                    } else {
                        vec![strict_fd()]
                    }
                }
                _ => vec![strict_fd(), Config::new(Consistency::Alo(2), Backend::Fd)],
            };
            let failing = prop != "C06" || true;
            Some(Spec {
                prop: prop_s,
                cfgs,
                roots: vec![
                    vec![],
                    vec![Op::Append { t: 0, len: half }, Op::Append { t: 0, len: half }, Op::Append { t: 0, len: 128 }],
                ],
                alphabet: Box::new(move |m: &Model, _h: &[Op]| {
                    let mut v = vec![
                        Op::Append { t: 0, len: 1 },
                        Op::Append { t: 0, len: half },
                        Op::Append { t: 0, len: over },
                        Op::Append { t: 1, len: half },
                        Op::Batch { t: 0, lens: vec![half, half, 127] },
                        Op::ReadNext { t: 0, ckpt: true },
                        Op::BatchRead { t: 0, budget: 257, ckpt: true, start: None },
                        Op::BatchRead { t: 0, budget: usize::MAX, ckpt: true, start: None },
                    ];
                    if prop_s != "C04" {
                        v.push(Op::ReadNext { t: 0, ckpt: false });
                        v.push(Op::BatchRead { t: 0, budget: usize::MAX, ckpt: false, start: None });
                        v.push(Op::BatchRead { t: 0, budget: 300, ckpt: true, start: Some(0) });
                        v.push(Op::ReadNext { t: 1, ckpt: true });
                    }
                    if thorough {
                        v.push(Op::Append { t: 0, len: onehalf });
                        v.push(Op::Append { t: 0, len: 0 });
                    }
                    if failing {
                        // one byte over the allocation cap
                        v.push(Op::Append { t: 0, len: max_alloc - 255 });
                        v.push(Op::BatchN { t: 0, n: 2001, len: 0 });
                        v.push(Op::Batch { t: 0, lens: vec![] });
                        if prop_s == "C16" {
                            // a topic name one byte too long for the entry header, on both paths
                            v.push(Op::AppendLongTopic { name_len: 217, len: 8, batch: false });
                            v.push(Op::AppendLongTopic { name_len: 217, len: 8, batch: true });
                        }
                        if prop_s == "C04" {
                            v.push(Op::Append { t: 2, len: max_alloc }); // first op on a new topic fails
                            if thorough {
                                v.push(Op::Batch { t: 2, lens: vec![] });
                            }
                            v.push(Op::AppendLongTopic { name_len: 300, len: 8, batch: false });
                            v.push(Op::AppendLongTopic { name_len: 217, len: 8, batch: true });
                            v.push(Op::Batch { t: 0, lens: vec![1, max_alloc] });
                            // over the batch byte cap (build-time scaled to 1 MiB)
                            v.push(Op::BatchN { t: 0, n: 140, len: max_alloc - 300 });
                            v.push(Op::ReadNext { t: 2, ckpt: true });
                        }
                    }
                    if with_restarts && m.restarts < max_restarts {
                        v.push(Op::Reopen);
                        v.push(Op::Restart);
                    }
                    v
                }),
                max_depth: if thorough { 5 } else { 3 },
                owned: match prop {
                    "C15" => vec!["count", "crash"],
                    "C06" => vec!["read.order", "read.empty", "read.err", "read.panic", "reopen.err", "reopen.panic", "count", "crash"],
                    "C04" => vec!["read.order", "read.empty", "read.err", "read.panic", "count", "crash", "append.accepted_oversize", "append.accepted_longtopic", "append.panic"],
                    _ => vec![],
                },
                dedup: true,
                time_cap_s: if thorough { 1100.0 } else { 50.0 },
                extra: None,
                digest_each: false,
                want_listing: false,
                isolate: false,
                owns_if: match prop {
                    "C06" => Some(Box::new(|_pre: &Model, ops: &[Op]| ops.iter().any(|o| matches!(o, Op::Reopen | Op::Restart)))),
                    "C04" => Some(Box::new(|pre: &Model, ops: &[Op]| {
                        // a failed append happened before, or the failing step is itself an append-type op
                        pre.failed_appends > 0
                            || matches!(
                                ops.last(),
                                Some(Op::Append { .. } | Op::Batch { .. } | Op::BatchN { .. } | Op::AppendLongTopic { .. })
                            )
                    })),
                    _ => None,
                },
                diff_cfg: if prop == "C16" {
                    Some(Box::new(|c: &Config| {
                        let mut d = c.clone();
                        d.backend = match c.backend {
                            Backend::Fd => Backend::Mmap,
                            Backend::Mmap => Backend::Fd,
                        };
                        d
                    }))
                } else {
                    None
                },
                probe: None,
                tails: if prop == "C16" {
                    vec![]
                } else if prop == "C04" && !thorough {
                    // quick tier: in-process visibility is covered by the reads of the alphabet;
                    // the tail looks at what a restart brings back
                    vec![vec![Op::Restart, Op::Drain { t: 0 }, Op::Drain { t: 1 }, Op::Drain { t: 2 }]]
                } else {
                    vec![
                        vec![Op::Drain { t: 0 }, Op::Drain { t: 1 }, Op::Drain { t: 2 }],
                        vec![Op::Restart, Op::Drain { t: 0 }, Op::Drain { t: 1 }, Op::Drain { t: 2 }],
                    ]
                },
            })
        }
        "C02" => {
            let (half, over, bs) = (s.half, s.over, s.bs);
            Some(Spec {
                prop: "C02",
                cfgs: if thorough {
                    vec![
                        strict_fd(),
                        Config::new(Consistency::Strict, Backend::Mmap),
                        Config::new(Consistency::Alo(1), Backend::Fd),
                        Config::new(Consistency::Alo(3), Backend::Mmap),
                    ]
                } else {
                    vec![strict_fd(), Config::new(Consistency::Alo(3), Backend::Mmap)]
                },
                roots: vec![
                    vec![],
                    vec![Op::Append { t: 0, len: half }, Op::Append { t: 0, len: half }, Op::Append { t: 0, len: 128 }],
                    vec![
                        Op::Append { t: 0, len: 1 },
                        Op::Append { t: 1, len: half },
                        Op::Append { t: 0, len: 129 },
                        Op::ReadNext { t: 0, ckpt: true },
                    ],
                ],
                alphabet: Box::new(move |m: &Model, _h: &[Op]| {
                    let mut v = vec![
                        Op::Append { t: 0, len: 1 },
                        Op::Append { t: 0, len: half },
                        Op::Append { t: 0, len: over },
                        Op::Batch { t: 0, lens: vec![half, half, 127] },
                        Op::ReadNext { t: 0, ckpt: true },
                        Op::BatchRead { t: 0, budget: 257, ckpt: true, start: None },
                        Op::BatchRead { t: 0, budget: usize::MAX, ckpt: true, start: None },
                    ];
                    if thorough {
                        v.push(Op::Append { t: 0, len: 128 });
                        v.push(Op::Append { t: 1, len: half });
                    }
                    if m.restarts < 1 {
                        v.push(Op::Restart);
                    }
                    v
                }),
                max_depth: if thorough { 4 } else { 2 },
                owned: vec!["peek.changed", "peek.differs", "peek.result", "reclaim.bookkeeping", "crash"],
                dedup: true,
                time_cap_s: if thorough { 1100.0 } else { 110.0 },
                extra: None,
                digest_each: false,
                want_listing: false,
                isolate: false,
                owns_if: None,
                diff_cfg: None,
                probe: Some(crate::explore::ProbeSpec {
                    peeks: Box::new(move |m: &Model| {
                        let total: u64 = m
                            .topic_ro(0)
                            .map(|tm| tm.log.iter().map(|e| 256 + e.ent.len as u64).sum())
                            .unwrap_or(0);
                        let mut v = vec![
                            Op::ReadNext { t: 0, ckpt: false },
                            Op::ReadNext { t: 1, ckpt: false },
                            Op::BatchRead { t: 0, budget: 1, ckpt: false, start: None },
                            Op::BatchRead { t: 0, budget: 257, ckpt: false, start: None },
                            Op::BatchRead { t: 0, budget: bs, ckpt: false, start: None },
                            Op::BatchRead { t: 0, budget: usize::MAX, ckpt: false, start: None },
                        ];
                        let offs: Vec<u64> = if thorough {
                            vec![0u64, 1, 256, 257, 300, total.saturating_sub(1), total, total + 1]
                        } else {
                            vec![0u64, 257, total.saturating_sub(1), total + 1]
                        };
                        for off in offs {
                            v.push(Op::BatchRead { t: 0, budget: 300, ckpt: true, start: Some(off) });
                            v.push(Op::BatchRead { t: 0, budget: usize::MAX, ckpt: false, start: Some(off) });
                        }
                        v.sort();
                        v.dedup();
                        v
                    }),
                    suffixes: vec![
                        vec![Op::Drain { t: 0 }, Op::Drain { t: 1 }],
                        vec![Op::Restart, Op::Drain { t: 0 }, Op::Drain { t: 1 }],
                    ],
                }),
                tails: vec![],
            })
        }
        "C12" => {
            let fill = s.fill;
            let mut c1 = Config::new(Consistency::Strict, Backend::Fd);
            c1.gate_bg = true;
            let mut c2 = Config::new(Consistency::Strict, Backend::Mmap);
            c2.gate_bg = true;
            let mut c3 = Config::new(Consistency::Alo(2), Backend::Fd);
            c3.gate_bg = true;
            let af = |t: u8| Op::Append { t, len: fill };
            Some(Spec {
                prop: "C12",
                cfgs: if thorough { vec![c1, c2, c3] } else { vec![c1] },
                roots: vec![
                    // file 1 = blocks a,a,b,a (4 per file), then b,a roll over into file 2
                    vec![af(0), af(0), af(1), af(0), af(1), af(0)],
                    // file 1 entirely of topic a, tail in file 2
                    vec![af(0), af(0), af(0), af(0), af(0)],
                    // file 1 = a,a,b,a with two entries in a's last block; b's rotation opens file 2
                    // (roll-over through the sealing writer), b rotates once more and is drained:
                    // every block of file 1 is sealed, b's are consumed, a's are not
                    vec![
                        af(0),
                        af(0),
                        af(1),
                        Op::Append { t: 0, len: s.half },
                        Op::Append { t: 0, len: s.half },
                        af(1),
                        af(1),
                        af(0),
                        Op::Drain { t: 1 },
                    ],
                    // a topic whose first entry needs a larger block than the one handed to its
                    // writer (that block is given up empty at the end of file 1, the two-unit
                    // block opens file 2), the big block sealed, the rest of file 2 consumed
                    vec![af(0), af(0), af(0), Op::Append { t: 1, len: s.over }, af(0), af(0), af(0), af(1), Op::Drain { t: 0 }],
                    // file 1 entirely consumed, consumer in the writer's tail in file 2
                    vec![af(0), af(0), af(0), af(0), af(0), Op::Drain { t: 0 }],
                    // three files; file 1 consumed, the consumer inside file 2's sealed blocks
                    vec![
                        af(0),
                        af(0),
                        af(0),
                        af(0),
                        af(0),
                        af(0),
                        af(0),
                        af(0),
                        af(0),
                        af(0),
                        Op::ReadNext { t: 0, ckpt: true },
                        Op::ReadNext { t: 0, ckpt: true },
                        Op::ReadNext { t: 0, ckpt: true },
                        Op::ReadNext { t: 0, ckpt: true },
                        Op::ReadNext { t: 0, ckpt: true },
                        Op::ReadNext { t: 0, ckpt: true },
                    ],
                    // cursor parked at the end of a sealed block, polled without progress
                    vec![
                        af(0),
                        af(0),
                        af(1),
                        af(0),
                        af(1),
                        af(0),
                        Op::BatchRead { t: 0, budget: 1, ckpt: true, start: None },
                        Op::BatchRead { t: 0, budget: usize::MAX, ckpt: false, start: None },
                        Op::BatchRead { t: 0, budget: usize::MAX, ckpt: false, start: None },
                    ],
                ],
                alphabet: Box::new(move |m: &Model, _h: &[Op]| {
                    let mut v = vec![
                        Op::ReadNext { t: 0, ckpt: true },
                        Op::BatchRead { t: 0, budget: usize::MAX, ckpt: true, start: None },
                        Op::BatchRead { t: 0, budget: 1, ckpt: true, start: None },
                        Op::BatchRead { t: 0, budget: usize::MAX, ckpt: false, start: None },
                        Op::ReadNext { t: 1, ckpt: true },
                        Op::ReclaimTick,
                    ];
                    if thorough {
                        v.push(Op::Append { t: 0, len: fill });
                        v.push(Op::ReadNext { t: 0, ckpt: false });
                        v.push(Op::Drain { t: 0 });
                    }
                    if m.restarts < 1 {
                        v.push(Op::Restart);
                    }
                    v
                }),
                max_depth: if thorough { 6 } else { 4 },
                owned: vec!["reclaim.unconsumed", "read.order", "read.empty", "read.err", "read.panic", "reopen.err", "reopen.panic", "crash"],
                dedup: true,
                time_cap_s: if thorough { 1100.0 } else { 55.0 },
                extra: None,
                digest_each: true,
                want_listing: false,
                isolate: true,
                owns_if: Some(Box::new(|_pre: &Model, ops: &[Op]| ops.iter().any(|o| matches!(o, Op::ReclaimTick)))),
                diff_cfg: None,
                probe: None,
                tails: vec![
                    vec![Op::ReclaimTick, Op::Drain { t: 0 }, Op::Drain { t: 1 }],
                    vec![Op::ReclaimTick, Op::Restart, Op::Drain { t: 0 }, Op::Drain { t: 1 }],
                ],
            })
        }
        "C13" => {
            let fill = s.fill;
            let mut c1 = Config::new(Consistency::Strict, Backend::Fd);
            c1.gate_bg = true;
            let mut c2 = Config::new(Consistency::Strict, Backend::Mmap);
            c2.gate_bg = true;
            let af = |t: u8| Op::Append { t, len: fill };
            let o = |inst: u8, key: u8, dir: u8| Op::Open { inst, key, dir };
            let u = |inst: u8| Op::Use { inst };
            Some(Spec {
                prop: "C13",
                cfgs: if thorough { vec![c1, c2] } else { vec![c1] },
                roots: vec![
                    // distinct keys under one data dir
                    vec![o(0, 0, 0), o(1, 1, 0)],
                    // same key under distinct data dirs
                    vec![o(0, 0, 0), o(1, 0, 1)],
                    // both instances own a fully allocated first file
                    vec![o(0, 0, 0), o(1, 1, 0), u(0), af(0), af(0), af(0), af(0), af(0), u(1), af(0), af(0), af(0), af(0), af(0)],
                    // three instances, the third with a key that needs sanitising
                    vec![o(0, 0, 0), o(1, 1, 0), o(2, 2, 0), u(0), af(0), u(2), af(0)],
                    // two keys without a single usable character, of equal length ("##", "@@"):
                    // their directory names come from a hash of the key
                    vec![o(0, 3, 0), o(1, 4, 0), u(0), af(0)],
                ],
                alphabet: Box::new(move |m: &Model, _h: &[Op]| {
                    let mut v = vec![];
                    for i in 0..3u8 {
                        if m.sym.open[i as usize].is_some() && i as usize != m.sym.cur {
                            v.push(Op::Use { inst: i });
                        }
                    }
                    v.extend(vec![
                        Op::Append { t: 0, len: 1 },
                        Op::Append { t: 0, len: fill },
                        Op::ReadNext { t: 0, ckpt: true },
                        Op::BatchRead { t: 0, budget: usize::MAX, ckpt: true, start: None },
                        Op::ReclaimTick,
                    ]);
                    if thorough {
                        v.push(Op::MarkClean { t: 0 });
                        v.push(Op::Append { t: 1, len: fill });
                    }
                    if m.restarts < 1 {
                        v.push(Op::Reopen);
                    }
                    v
                }),
                max_depth: if thorough { 5 } else { 3 },
                owned: vec!["read.order", "read.empty", "read.err", "read.panic", "reopen.err", "reopen.panic", "count", "clean", "crash"],
                dedup: true,
                time_cap_s: if thorough { 1100.0 } else { 55.0 },
                extra: None,
                digest_each: false,
                want_listing: false,
                isolate: true,
                owns_if: None,
                diff_cfg: None,
                probe: None,
                tails: vec![vec![
                    Op::ReclaimTick,
                    Op::Restart,
                    Op::Use { inst: 0 },
                    Op::Drain { t: 0 },
                    Op::Use { inst: 1 },
                    Op::Drain { t: 0 },
                ]],
            })
        }
        "C17" => {
            let mut c1 = strict_fd();
            c1.gate_persist = true;
            let mut c2 = Config::new(Consistency::Alo(2), Backend::Mmap);
            c2.gate_persist = true;
            Some(Spec {
                prop: "C17",
                cfgs: if thorough { vec![c1, c2] } else { vec![c1] },
                roots: vec![vec![]],
                alphabet: Box::new(move |m: &Model, _h: &[Op]| {
                    let mut v = vec![
                        Op::Append { t: 0, len: 1 },
                        Op::MarkClean { t: 0 },
                        Op::MarkDirty { t: 0 },
                        Op::Append { t: 1, len: 1 },
                        Op::MarkClean { t: 1 },
                        Op::PersistTick,
                    ];
                    if m.restarts < if thorough { 3 } else { 2 } {
                        v.push(Op::Reopen);
                        v.push(Op::Restart);
                    }
                    v
                }),
                max_depth: if thorough { 7 } else { 5 },
                owned: vec!["clean", "crash", "reopen.err", "reopen.panic"],
                dedup: true,
                time_cap_s: if thorough { 1100.0 } else { 50.0 },
                extra: None,
                digest_each: false,
                want_listing: false,
                isolate: false,
                owns_if: None,
                diff_cfg: None,
                probe: None,
                tails: vec![],
            })
        }
        _ => None,
    }
}

pub fn write_evidence(prop: &str, tier: &str, seed: i64, wall: f64, out: &Outcome, level: &str, rule: &str, assumptions: &[&str]) {
    let st: &Stats = &out.stats;
    let mut samples: Vec<serde_json::Value> = st.samples.iter().map(|s| serde_json::Value::String(s.clone())).collect();
    if samples.is_empty() {
        samples.push(serde_json::Value::String("(no state survived; see violations)".into()));
    }
    let ev = serde_json::json!({
        "property_id": prop,
        "tier": tier,
        "seed": seed,
        "level": level,
        "wall_s": wall,
        "violations": st.violations,
        "coverage": {
            "states": st.states,
            "transitions": st.transitions,
            "traces_validated_against_impl": st.transitions,
            "evaluations": st.transitions,
            "distinct_nontrivial": st.states,
            "rule": rule,
            "samples": samples,
            "exhaustive": st.exhaustive,
            "cap_hit": st.cap_hit,
            "merged_states": st.merged,
            "max_depth_completed": st.max_depth_completed,
            "depth_reached": st.depth_reached,
            "distinct_outcomes_of_last_step": st.distinct_outcomes,
            "pruned_behind_known_findings": st.pruned_known,
            "pruned_foreign_discrepancy": st.pruned_foreign,
            "foreign_discrepancy_classes": st.foreign_classes,
            "known_finding_hits": st.known_hits,
            "per_config_states_transitions": st.per_config,
            "nondeterministic_replays": st.nondeterminism,
            "machinery_errors": st.machinery_errors,
            "geometry": format!("{:?}", walrus_rust::wal::verif::geometry()),
            "explanation": "every transition is an execution of the real engine in a pristine forked process, so transitions == traces validated against the implementation",
        },
        "assumptions": assumptions,
    });
    let _ = std::fs::create_dir_all("/verif/evidence");
    let path = format!("/verif/evidence/{}.json", prop);
    std::fs::write(&path, serde_json::to_string_pretty(&ev).unwrap()).expect("write evidence");
}

/// Returns the process exit code.
pub fn run_check(prop: &str, tier: &str) -> i32 {
    let t0 = Instant::now();
    let seed: i64 = std::env::var("VERIF_SEED").ok().and_then(|s| s.parse().ok()).unwrap_or(0);
    let kf = Known::load();
    let pool = Pool::new();
    let (out, rule) = if prop == "C11" {
        (
            crate::damage::run(&pool, tier, &kf),
            "seed directory images recorded from fixed engine workloads (see per_config); for every seed: every byte of the first 48 (thorough 96) bytes of every entry header x values {00, FF, b^01, b^80, b+1}, a payload bit flip and a zeroed header per entry, every (second, thorough: every) byte of both index files x the same values, every truncation length of the index files, leftover *.tmp copies, truncations of WAL files at and near unit boundaries, zeroed units and files, stray files (empty, garbage, WAL copy under another name, sub-directory, full-size garbage with a plausible header length); each mutant is opened by the real engine in a worker built with AddressSanitizer and probed with peeks, offset reads, drains and an append; states = mutants that caused no panic / abort / signal / sanitizer report / hang and returned only appended payloads".to_string(),
        )
    } else if prop == "C05" {
        (
            crate::schedx::run_c05(&pool, tier, &kf),
            "stateless exploration of thread schedules of the real engine under a cooperative scheduler: for every harness (3 pre-states x 12 two-thread menus + three-thread menus, see per_config) every schedule with at most the stated number of preemptions (switching away from a thread that could continue) at the cfg-guarded lock-free scheduling points and API-call boundaries is executed; states = schedules whose outcome satisfied the oracle, transitions = schedules executed; distinct outcomes = distinct (per-thread results, final drain) vectors".to_string(),
        )
    } else if matches!(prop, "C07" | "C08" | "C09" | "C10") {
        let Some(cs) = crate::crash::spec_for(prop, tier) else { return 2 };
        let rule = format!(
            "{} bounded workloads per configuration, each executed once on the real engine with the I/O recorder on; every crash state ({}) is materialised from the recorded mutations, opened by the real recovery code in a worker and drained; states = crash states that satisfied the oracle, transitions = workloads + recoveries executed; distinct outcomes = distinct (topic, recovered length, acknowledged length) triples",
            cs.workloads.len(),
            if cs.power_loss { "every trace prefix x every subset of not-yet-synced mutations" } else { "every trace prefix x every subset of an in-flight io_uring batch" }
        );
        (crate::crash::run(&pool, &cs, &kf), rule)
    } else if prop == "C14" {
        (
            crate::c14::run(&pool, tier),
            "every key over the 9-symbol alphabet {a - _ . / space NUL e-acute backslash} up to the length bound per constructor (see per_config), plus dot/dot-dot specials and a 300-byte key; one open + one append per key on the real engine; states = keys whose files all landed under data/<one component>/; distinct outcomes = distinct namespace directories created".to_string(),
        )
    } else {
        let Some(spec) = spec_for(prop, tier) else {
            eprintln!("no sequential spec for {}", prop);
            return 2;
        };
        let mut out = explore(&pool, &spec, &kf);
        if prop == "C01" && out.violations.is_empty() {
            let out2 = explore(&pool, &c01_product_spec(tier), &kf);
            merge_outcome(&mut out, out2, "layouts-x-budgets");
        }
        if prop == "C13" && out.violations.is_empty() {
            if let Some(sp2) = c13_same_names_spec(tier) {
                let out2 = explore(&pool, &sp2, &kf);
                merge_outcome(&mut out, out2, "equal-file-names");
            }
        }
        if prop == "C16" && out.violations.is_empty() {
            if let Some(sp2) = c16_many_ranges_spec(tier) {
                let out2 = explore(&pool, &sp2, &kf);
                merge_outcome(&mut out, out2, "ten-blocks");
            }
        }
        if prop == "C06" && out.violations.is_empty() {
            let out2 = explore(&pool, &c06_boundary_spec(tier), &kf);
            merge_outcome(&mut out, out2, "block-boundary-layouts");
        }
        if prop == "C04" && out.violations.is_empty() {
            // part (b): injected I/O failures, with whatever the BFS left of the time budget
            let cap = if tier_is_thorough(tier) { 600.0 } else { 25.0 };
            crate::faults::run(&pool, tier, &kf, &mut out, cap);
        }
        let mut rule = format!(
            "BFS over op sequences (alphabet and roots in DESIGN.md section {}), depth <= {}, one execution of the real engine per transition; a state is distinct when (engine digest, model state) is new; non-trivial = survived the oracle and was not merged",
            prop, spec.max_depth
        );
        if prop == "C01" {
            rule.push_str("; plus a product family (per_config keys layouts-x-budgets/<config>): every layout of 2..3 (thorough 4) entries over {10, 128, 0.3 block, 0.73 block} bytes x 19 byte budgets around those sizes (payload-based and header-inclusive), drained by repeated consuming batch reads with that budget (depth 3, thorough 4) and a final drain");
        }
        if prop == "C13" {
            rule.push_str("; plus a family (per_config keys equal-file-names/<config>) in which two namespaces hold WAL files of the same name (created in the same wall-clock millisecond by two processes, hooked clock fixed) and are then opened together, depth 2 (thorough 3)");
        }
        if prop == "C16" {
            rule.push_str("; plus a family (per_config keys ten-blocks/<config>) starting from a topic spread over ten blocks in three files, depth 2 (thorough 3)");
        }
        if prop == "C06" {
            rule.push_str("; plus a block-boundary family (per_config keys block-boundary-layouts/<config>): 13 layouts ending exactly at, one byte before and one byte behind a block or file boundary (zero-length entry in the last header-sized slot, entries filling a one-unit or two-unit block to the byte, as appends and as batches) x every sequence of up to 2 (thorough 3) reads / appends / reopen / restart, with drain tails before and after a further restart");
        }
        if prop == "C04" {
            rule.push_str("; plus fault enumeration: 3 prefixes x 7 appends/batches (one to nine entries, one to three blocks, file roll-over) x every placement of one (thorough: also every pair of) injected failure(s) at the seams the operation passes (k-th flush, k-th file creation, io_uring submission, negative and short completion of every entry of the batch) x {in-process, restart} tails, each executed on the real engine and stepped through the model that ignores failed appends (per_config keys faults/<config>: placements, executions)");
        }
        (out, rule)
    };
    let wall = t0.elapsed().as_secs_f64();
    write_evidence(
        prop,
        tier,
        seed,
        wall,
        &out,
        if prop == "C11" { "fault_enumeration" } else { "model_checking" },
        &rule,
        &[
            "small geometry (2 KiB blocks, 4 blocks per file) stands for the real constants; engine code is parametric in them",
            "payload alphabet and budget classes as listed; values outside are not explored",
            "the executor child is single-threaded apart from the engine's own background threads",
        ],
    );
    for l in out.known_lines.iter() {
        println!("{}", l);
    }
    println!(
        "{} {}: states={} transitions={} merged={} depth_completed={} exhaustive={} outcomes={} pruned_known={} pruned_foreign={} wall={:.1}s",
        prop,
        tier,
        out.stats.states,
        out.stats.transitions,
        out.stats.merged,
        out.stats.max_depth_completed,
        out.stats.exhaustive,
        out.stats.distinct_outcomes,
        out.stats.pruned_known,
        out.stats.pruned_foreign,
        wall
    );
    if !out.stats.machinery_errors.is_empty() {
        for m in out.stats.machinery_errors.iter().take(5) {
            eprintln!("machinery: {}", m);
        }
    }
    if !out.violations.is_empty() {
        for (v, path) in out.violations.iter() {
            println!("VIOLATION property={} replay={}", prop, path);
            println!("  [{}] {} :: {} -> {}", v.cfg.label(), hist_str(&v.ops), v.class, v.detail);
        }
        return 1;
    }
    if out.stats.nondeterminism > 0 && out.stats.states == 0 {
        return 2;
    }
    0
}
