//! E3 (driver side): stateless exploration of thread schedules with iterative preemption
//! bounding (CHESS), and the C05 / C04(c) oracles.
use crate::explore::{Outcome, Stats, Violation};
use crate::known::Known;
use crate::ops::*;
use crate::pool::Pool;
use crate::sched::seq_base;
use std::collections::{BTreeMap, HashMap, HashSet};
use std::time::Instant;

pub struct Harness {
    pub name: &'static str,
    pub setup: Vec<Op>,
    pub threads: Vec<Vec<Op>>,
}

fn is_consuming(op: &Op) -> bool {
    matches!(op, Op::ReadNext { ckpt: true, .. } | Op::BatchRead { ckpt: true, start: None, .. })
}

struct Analysis {
    violation: Option<(String, String)>, // (class, detail)
    dup_overlapping_read_next: bool,
}

/// entries an op appends (Ent list) given its thread and index
fn entries_of(thread: usize, j: usize, op: &Op) -> Vec<Ent> {
    match op {
        Op::Append { t, len } => vec![ent_of(&payload(*t, seq_base(thread, j), *len))],
        Op::Batch { t, lens } => lens.iter().enumerate().map(|(i, l)| ent_of(&payload(*t, seq_base(thread, j) + i as u32, *l))).collect(),
        _ => vec![],
    }
}

fn analyse(h: &Harness, out: &SchedOut) -> Analysis {
    let mut an = Analysis { violation: None, dup_overlapping_read_next: false };
    // acknowledged entries, per producer in order; rejected ones separately
    let mut acked: Vec<(usize, Vec<Ent>)> = vec![]; // (producer id, entries of one op)
    let mut rejected: Vec<Ent> = vec![];
    for (j, op) in h.setup.iter().enumerate() {
        let e = entries_of(9, j, op);
        if !e.is_empty() {
            acked.push((9, e));
        }
    }
    for (k, prog) in h.threads.iter().enumerate() {
        for (j, op) in prog.iter().enumerate() {
            let e = entries_of(k, j, op);
            if e.is_empty() {
                continue;
            }
            match out.results.get(k).and_then(|r| r.get(j)).map(|x| &x.0) {
                Some(Res::Ok) => acked.push((k, e)),
                Some(Res::Err(_)) => rejected.extend(e),
                Some(Res::Panic(m)) => {
                    an.violation = Some(("panic".into(), format!("thread {} op {} panicked: {}", k, op.short(), m)));
                    return an;
                }
                other => {
                    an.violation = Some(("harness".into(), format!("thread {} op {} -> {:?}", k, op.short(), other)));
                    return an;
                }
            }
        }
    }
    let all_acked: Vec<Ent> = acked.iter().flat_map(|(_, e)| e.iter().cloned()).collect();
    // deliveries: (reader id, call start, call end, entries, is_read_next); final drain = reader 99
    let mut reads: Vec<(usize, usize, usize, Vec<Ent>, bool)> = vec![];
    for (k, prog) in h.threads.iter().enumerate() {
        for (j, op) in prog.iter().enumerate() {
            if !is_consuming(op) {
                continue;
            }
            match out.results.get(k).and_then(|r| r.get(j)) {
                Some((Res::One(e), s0, s1)) => reads.push((k, *s0, *s1, vec![e.clone()], true)),
                Some((Res::None, s0, s1)) => reads.push((k, *s0, *s1, vec![], true)),
                Some((Res::Many(v), s0, s1)) => reads.push((k, *s0, *s1, v.clone(), false)),
                Some((other, _, _)) => {
                    an.violation = Some(("read.err".into(), format!("thread {} {} -> {:?}", k, op.short(), other)));
                    return an;
                }
                None => {}
            }
        }
    }
    // consuming reads of the set-up (sequential, before the threads start) = reader 98
    for (j, op) in h.setup.iter().enumerate() {
        if !is_consuming(op) {
            continue;
        }
        match out.setup_results.get(j) {
            Some(Res::One(e)) => reads.push((98, 0, 0, vec![e.clone()], false)),
            Some(Res::Many(v)) => reads.push((98, 0, 0, v.clone(), false)),
            Some(Res::None) => {}
            other => {
                an.violation = Some(("harness".into(), format!("set-up read {} -> {:?}", op.short(), other)));
                return an;
            }
        }
    }
    let end = usize::MAX / 2;
    reads.push((99, end, end + 1, out.final_drain.clone(), false));
    // (1) exactly once, nothing foreign, nothing of a rejected append
    let mut count: HashMap<Ent, Vec<usize>> = HashMap::new();
    for (ri, r) in reads.iter().enumerate() {
        for e in r.3.iter() {
            count.entry(e.clone()).or_default().push(ri);
        }
    }
    for e in count.keys() {
        if rejected.contains(e) {
            an.violation = Some(("rejected.visible".into(), format!("an entry (len {}) of a rejected append was delivered", e.len)));
            return an;
        }
        if !all_acked.contains(e) {
            an.violation = Some(("foreign".into(), format!("a delivered entry (len {}, fnv {:x}) was never appended", e.len, e.fnv)));
            return an;
        }
    }
    let mut lost = vec![];
    let mut dups: Vec<(Ent, Vec<usize>)> = vec![];
    for e in all_acked.iter() {
        match count.get(e).map(|v| v.len()).unwrap_or(0) {
            0 => lost.push(e.clone()),
            1 => {}
            _ => dups.push((e.clone(), count[e].clone())),
        }
    }
    if !lost.is_empty() {
        an.violation = Some((
            "lost".into(),
            format!("{} acknowledged entr{} never delivered (first: len {})", lost.len(), if lost.len() == 1 { "y was" } else { "ies were" }, lost[0].len),
        ));
        return an;
    }
    if !dups.is_empty() {
        // known shape: every duplicate is between exactly two read_next calls that overlapped in
        // real time (neither returned before the other was called)
        let shape = dups.iter().all(|(_, rs)| {
            rs.len() == 2 && {
                let (a, b) = (&reads[rs[0]], &reads[rs[1]]);
                a.4 && b.4 && a.0 != b.0 && a.1 <= b.2 && b.1 <= a.2
            }
        });
        an.dup_overlapping_read_next = shape;
        let (e, rs) = &dups[0];
        an.violation = Some((
            "duplicate".into(),
            format!(
                "entry (len {}) was delivered {} times: by {}",
                e.len,
                rs.len(),
                rs.iter().map(|ri| format!("reader {} (call steps {}..{})", reads[*ri].0, reads[*ri].1, reads[*ri].2.min(9999))).collect::<Vec<_>>().join(" and ")
            ),
        ));
        return an;
    }
    // physical log order
    let pos: HashMap<&Ent, usize> = out.physical.iter().enumerate().map(|(i, e)| (e, i)).collect();
    if out.physical.len() != all_acked.len() || all_acked.iter().any(|e| !pos.contains_key(e)) {
        an.violation = Some((
            "physical".into(),
            format!("the log holds {} entries (offset read from 0) but {} were acknowledged", out.physical.len(), all_acked.len()),
        ));
        return an;
    }
    // (2) each read is a contiguous run of the log; (3) reads ordered in real time are ordered in the log
    for r in reads.iter() {
        for w in r.3.windows(2) {
            if pos[&w[1]] != pos[&w[0]] + 1 {
                an.violation = Some(("read.gap".into(), format!("a read of reader {} returned entries that are not adjacent in the log (positions {} then {})", r.0, pos[&w[0]], pos[&w[1]])));
                return an;
            }
        }
    }
    for a in reads.iter() {
        for b in reads.iter() {
            if a.2 < b.1 && !a.3.is_empty() && !b.3.is_empty() {
                let amax = a.3.iter().map(|e| pos[e]).max().unwrap();
                let bmin = b.3.iter().map(|e| pos[e]).min().unwrap();
                if amax > bmin {
                    an.violation = Some((
                        "order.realtime".into(),
                        format!("reader {}'s read returned (log position {}) before reader {}'s read was called, yet the later read returned an earlier entry (position {})", a.0, amax, b.0, bmin),
                    ));
                    return an;
                }
            }
        }
    }
    // (4) per-producer order and (5) batch contiguity in the log
    let mut per_prod: BTreeMap<usize, Vec<usize>> = BTreeMap::new();
    for (p, es) in acked.iter() {
        for w in es.windows(2) {
            if pos[&w[1]] != pos[&w[0]] + 1 {
                an.violation = Some(("batch.split".into(), format!("the entries of a batch of producer {} are not contiguous in the log", p)));
                return an;
            }
        }
        for e in es {
            per_prod.entry(*p).or_default().push(pos[e]);
        }
    }
    for (p, v) in per_prod.iter() {
        if v.windows(2).any(|w| w[0] > w[1]) {
            an.violation = Some(("order.producer".into(), format!("entries of producer {} are not in its append order in the log", p)));
            return an;
        }
    }
    an
}

pub fn harnesses(thorough: bool) -> Vec<Harness> {
    let s = crate::checks::sizes();
    let h = s.half;
    let ap = |len: usize| Op::Append { t: 0, len };
    let rn = Op::ReadNext { t: 0, ckpt: true };
    let br = |b: usize| Op::BatchRead { t: 0, budget: b, ckpt: true, start: None };
    let setups: Vec<(&'static str, Vec<Op>)> = vec![
        ("tail2", vec![ap(130), ap(131)]),
        ("sealed+tail", vec![ap(h), ap(h), ap(132)]),
        ("tail-nearly-full", vec![ap(h), ap(600)]),
        // both entries were consumed through the tail path, then the writer rotated: the
        // consumers' remembered tail position names the sealed block, the new block holds one entry
        ("rotated-after-tail-reads", vec![ap(h), ap(600), rn.clone(), rn.clone(), ap(h)]),
    ];
    let menus: Vec<(&'static str, Vec<Vec<Op>>)> = vec![
        ("P|C", vec![vec![ap(140)], vec![rn.clone()]]),
        ("Prot|C", vec![vec![ap(h)], vec![rn.clone(), rn.clone()]]),
        ("PB|C", vec![vec![Op::Batch { t: 0, lens: vec![141, 142] }], vec![rn.clone()]]),
        ("P|CB", vec![vec![ap(140)], vec![br(usize::MAX)]]),
        ("Prot|CB", vec![vec![ap(h)], vec![br(usize::MAX)]]),
        ("PBrot|CB", vec![vec![Op::Batch { t: 0, lens: vec![h, 143] }], vec![br(usize::MAX)]]),
        ("C|C", vec![vec![rn.clone()], vec![rn.clone()]]),
        ("C|CB", vec![vec![rn.clone()], vec![br(usize::MAX)]]),
        ("CB|CB", vec![vec![br(200)], vec![br(usize::MAX)]]),
        ("P|P", vec![vec![ap(140)], vec![ap(150)]]),
        ("P|PB", vec![vec![ap(140), ap(144)], vec![Op::Batch { t: 0, lens: vec![151, 152] }]]),
        ("PB|PB", vec![vec![Op::Batch { t: 0, lens: vec![141, 142] }], vec![Op::Batch { t: 0, lens: vec![151, 152] }]]),
    ];
    let mut out = vec![];
    for (sn, setup) in setups.iter() {
        for (mn, threads) in menus.iter() {
            out.push(Harness { name: Box::leak(format!("{}/{}", sn, mn).into_boxed_str()), setup: setup.clone(), threads: threads.clone() });
        }
    }
    let mut three: Vec<(&'static str, Vec<Vec<Op>>)> = vec![
        ("P|P|PB", vec![vec![ap(140)], vec![ap(150)], vec![Op::Batch { t: 0, lens: vec![151, 152] }]]),
        ("P|C|C", vec![vec![ap(140)], vec![rn.clone()], vec![rn.clone()]]),
        ("Prot|C|CB", vec![vec![ap(h)], vec![rn.clone()], vec![br(usize::MAX)]]),
        ("P|P|C", vec![vec![ap(140)], vec![ap(150)], vec![rn.clone(), rn.clone()]]),
    ];
    if thorough {
        three.extend(vec![
            ("Prot|C|C", vec![vec![ap(h)], vec![rn.clone()], vec![rn.clone()]]),
            ("Prot|CB|CB", vec![vec![ap(h)], vec![br(200)], vec![br(usize::MAX)]]),
            ("PBrot|C|CB", vec![vec![Op::Batch { t: 0, lens: vec![h, 143] }], vec![rn.clone()], vec![br(usize::MAX)]]),
            ("Prot|PB|C", vec![vec![ap(h)], vec![Op::Batch { t: 0, lens: vec![151, 152] }], vec![rn.clone(), rn.clone()]]),
        ]);
    }
    for (sn, setup) in setups.iter().skip(if thorough { 0 } else { 1 }).take(if thorough { 4 } else { 1 }) {
        for (mn, threads) in three.iter() {
            out.push(Harness { name: Box::leak(format!("{}/{}", sn, mn).into_boxed_str()), setup: setup.clone(), threads: threads.clone() });
        }
    }
    // quick tier: a rotation racing with two read_next calls on the nearly full tail (the
    // three-thread menus of the quick tier otherwise start from a tail with room)
    if !thorough {
        let (sn, setup) = &setups[2];
        out.push(Harness { name: Box::leak(format!("{}/Prot|C|C", sn).into_boxed_str()), setup: setup.clone(), threads: vec![vec![ap(h)], vec![rn.clone()], vec![rn.clone()]] });
    }
    // The quick tier carries one three-thread harness at two preemptions: the smallest
    // configuration in which a rotation, a retrying read_next and a second consumer meet
    // (it is where the thorough tier found the stale-fold defect).
    if !thorough {
        let (sn, setup) = &setups[2];
        out.push(Harness { name: Box::leak(format!("{}/Prot|C|CB@2", sn).into_boxed_str()), setup: setup.clone(), threads: three[2].1.clone() });
    }
    // four threads (bound 1), thorough only
    if thorough {
        let four: Vec<(&'static str, Vec<Vec<Op>>)> = vec![
            ("P|P|C|C", vec![vec![ap(140)], vec![ap(150)], vec![rn.clone()], vec![rn.clone()]]),
            ("Prot|PB|C|CB", vec![vec![ap(h)], vec![Op::Batch { t: 0, lens: vec![151, 152] }], vec![rn.clone()], vec![br(usize::MAX)]]),
        ];
        for (sn, setup) in setups.iter().skip(1) {
            for (mn, threads) in four.iter() {
                out.push(Harness { name: Box::leak(format!("{}/{}", sn, mn).into_boxed_str()), setup: setup.clone(), threads: threads.clone() });
            }
        }
    }
    out
}

fn preemptions(ds: &[Decision]) -> usize {
    ds.iter().filter(|d| d.last_enabled && d.chosen != 0).count()
}

pub fn run_c05(pool: &Pool, tier: &str, kf: &Known) -> Outcome {
    let t0 = Instant::now();
    let thorough = tier == "thorough";
    let mut stats = Stats { exhaustive: true, ..Default::default() };
    let mut violations: Vec<(Violation, String)> = vec![];
    let mut known_lines = vec![];
    let cfgs = if thorough {
        vec![Config::new(Consistency::Strict, Backend::Fd), Config::new(Consistency::Alo(2), Backend::Fd), Config::new(Consistency::Strict, Backend::Mmap)]
    } else {
        vec![Config::new(Consistency::Strict, Backend::Fd), Config::new(Consistency::Alo(2), Backend::Fd)]
    };
    let cap = if thorough { 1100.0 } else { 55.0 };
    let hs = harnesses(thorough);
    let mut outcomes: HashSet<u64> = HashSet::new();
    let mut jid = 0u64;
    let mut min_bound_done = usize::MAX;
    'all: for cfg in cfgs.iter() {
        for h in hs.iter() {
            let bound = if h.name.ends_with("@2") {
                2
            } else if h.threads.len() >= 4 {
                1
            } else if h.threads.len() == 3 {
                if thorough { 2 } else { 1 }
            } else if thorough {
                3
            } else {
                2
            };
            // worklist of choice prefixes; each carries the enabled sets it was derived from
            let mut work: Vec<(Vec<usize>, Vec<Vec<usize>>)> = vec![(vec![], vec![])];
            let mut n_sched = 0u64;
            while !work.is_empty() {
                if t0.elapsed().as_secs_f64() > cap {
                    stats.exhaustive = false;
                    stats.cap_hit = Some(format!("time cap {} s in harness {} [{}]", cap, h.name, cfg.label()));
                    break 'all;
                }
                let batch: Vec<(Vec<usize>, Vec<Vec<usize>>)> = work.drain(..work.len().min(256)).collect();
                let jobs: Vec<Job> = batch
                    .iter()
                    .map(|(p, _)| {
                        jid += 1;
                        Job {
                            id: jid,
                            cfg: cfg.clone(),
                            ops: h.setup.clone(),
                            want_digest: false,
                            digest_each: false,
                            want_listing: false,
                            isolate: false,
                            trace: false,
                            pre_image: vec![],
                            faults: vec![],
                            sched: Some(SchedSpec { threads: h.threads.clone(), prefix: p.clone() }),
                        }
                    })
                    .collect();
                let results = pool.run(jobs.clone());
                for (((prefix, expect), job), res) in batch.iter().zip(jobs.iter()).zip(results.iter()) {
                    stats.transitions += 1;
                    n_sched += 1;
                    let Some(so) = res.sched.as_ref() else {
                        stats.machinery_errors.push(format!("no scheduler output ({}) for {} prefix {:?}", res.status, h.name, prefix));
                        continue;
                    };
                    if so.status != "ok" {
                        if so.status.starts_with("stuck") {
                            // a thread that neither parks nor finishes: deadlock or missing point
                            let v = Violation {
                                prop: "C05".into(),
                                cfg: cfg.clone(),
                                ops: h.setup.clone(),
                                class: "stuck".into(),
                                detail: format!("harness {} schedule {:?}: {}", h.name, prefix, so.status),
                                obs: vec![],
                                status: so.status.clone(),
                            };
                            let path = write_sched_replay(&v, h, prefix, so);
                            violations.push((v, path));
                        } else {
                            stats.machinery_errors.push(format!("{}: {} prefix {:?}", so.status, h.name, prefix));
                        }
                        continue;
                    }
                    // replay determinism: the enabled sets along the prefix must be the recorded ones
                    for (i, en) in expect.iter().enumerate() {
                        if so.decisions.get(i).map(|d| &d.enabled) != Some(en) {
                            stats.nondeterminism += 1;
                            if stats.machinery_errors.len() < 5 {
                                stats.machinery_errors.push(format!("schedule replay diverged at decision {} in {} prefix {:?}", i, h.name, prefix));
                            }
                        }
                    }
                    let an = analyse(h, so);
                    outcomes.insert(fnv64(serde_json::to_string(&(&so.results.iter().map(|r| r.iter().map(|x| &x.0).collect::<Vec<_>>()).collect::<Vec<_>>(), &so.final_drain)).unwrap().as_bytes()));
                    match an.violation {
                        None => stats.states += 1,
                        Some((class, detail)) => {
                            let known = class == "duplicate" && an.dup_overlapping_read_next && kf.open("K-C05-concurrent-read-next-duplicate", "C05");
                            if known {
                                stats.pruned_known += 1;
                                let c = stats.known_hits.entry("K-C05-concurrent-read-next-duplicate".into()).or_insert(0);
                                *c += 1;
                                if *c == 1 {
                                    known_lines.push(format!(
                                        "KNOWN-FINDING: property=C05 {} [K-C05-concurrent-read-next-duplicate] e.g. [{}] harness {} schedule {:?} -> {}",
                                        kf.title("K-C05-concurrent-read-next-duplicate"),
                                        cfg.label(),
                                        h.name,
                                        so.decisions.iter().map(|d| d.enabled[d.chosen]).collect::<Vec<_>>(),
                                        detail
                                    ));
                                }
                            } else if violations.len() < 4 {
                                // determinism: the same schedule twice more
                                let again = pool.run(vec![job.clone(), job.clone()]);
                                let same = again.iter().all(|a| a.sched.as_ref().map(|s| analyse(h, s).violation.map(|v| v.0) == Some(class.clone())).unwrap_or(false));
                                if !same {
                                    stats.nondeterminism += 1;
                                    stats.machinery_errors.push(format!("violation candidate not reproducible: {} prefix {:?}", h.name, prefix));
                                } else {
                                    let v = Violation {
                                        prop: "C05".into(),
                                        cfg: cfg.clone(),
                                        ops: h.setup.clone(),
                                        class: class.clone(),
                                        detail: format!("harness {} threads {:?} schedule (thread ids) {:?}: {}", h.name, h.threads.iter().map(|t| hist_str(t)).collect::<Vec<_>>(), so.decisions.iter().map(|d| d.enabled[d.chosen]).collect::<Vec<_>>(), detail),
                                        obs: vec![],
                                        status: "ok".into(),
                                    };
                                    let path = write_sched_replay(&v, h, prefix, so);
                                    violations.push((v, path));
                                }
                            }
                        }
                    }
                    // children: deviate at every decision after the prefix, within the bound
                    for i in prefix.len()..so.decisions.len() {
                        let d = &so.decisions[i];
                        let before = preemptions(&so.decisions[..i]);
                        for alt in 1..d.enabled.len() {
                            let cost = before + if d.last_enabled { 1 } else { 0 };
                            if cost > bound {
                                continue;
                            }
                            let mut p: Vec<usize> = so.decisions[..i].iter().map(|x| x.chosen).collect();
                            p.push(alt);
                            let ex: Vec<Vec<usize>> = so.decisions[..=i].iter().map(|x| x.enabled.clone()).collect();
                            work.push((p, ex));
                        }
                    }
                    if stats.samples.len() < 6 && n_sched % 97 == 1 {
                        stats.samples.push(format!(
                            "[{}] {} threads {:?} schedule {:?} points {:?}",
                            cfg.label(),
                            h.name,
                            h.threads.iter().map(|t| hist_str(t)).collect::<Vec<_>>(),
                            so.decisions.iter().map(|d| d.enabled[d.chosen]).collect::<Vec<_>>(),
                            so.decisions.iter().map(|d| d.at[d.chosen].clone()).collect::<Vec<_>>()
                        ));
                    }
                }
                if violations.len() >= 4 {
                    break 'all;
                }
            }
            min_bound_done = min_bound_done.min(bound);
            stats.per_config.insert(format!("{} [{}] bound {}", h.name, cfg.label(), bound), (n_sched, n_sched));
        }
    }
    stats.distinct_outcomes = outcomes.len();
    stats.violations = violations.len() as u64;
    stats.max_depth_completed = if min_bound_done == usize::MAX { 0 } else { min_bound_done };
    Outcome { stats, violations, known_lines }
}

fn write_sched_replay(v: &Violation, h: &Harness, prefix: &[usize], so: &SchedOut) -> String {
    let dir = format!("/verif/replays/{}", v.prop);
    let _ = std::fs::create_dir_all(&dir);
    let body = serde_json::json!({
        "property": v.prop, "engine": "walmc-sched", "config": v.cfg, "harness": h.name, "setup": h.setup, "threads": h.threads,
        "choice_prefix": prefix, "schedule_thread_ids": so.decisions.iter().map(|d| d.enabled[d.chosen]).collect::<Vec<_>>(),
        "points": so.decisions.iter().map(|d| d.at[d.chosen].clone()).collect::<Vec<_>>(),
        "results": so.results, "final_drain": so.final_drain, "physical": so.physical, "class": v.class, "detail": v.detail,
    });
    let text = serde_json::to_string_pretty(&body).unwrap();
    let path = format!("{}/{:016x}.json", dir, fnv64(text.as_bytes()));
    let _ = std::fs::write(&path, text);
    path
}
