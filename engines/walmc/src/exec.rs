//! Child-side execution of one segment of a history on the real engine.
use crate::ops::*;
use std::panic::{catch_unwind, AssertUnwindSafe};
use std::path::{Path, PathBuf};
use walrus_rust::wal::verif;
use walrus_rust::{FsyncSchedule, ReadConsistency, Walrus};

pub const KEYS: [&str; 5] = ["k0", "k1", "k/2", "##", "@@"];

fn topic_name(t: u8) -> &'static str {
    TOPICS[t as usize % TOPICS.len()]
}

fn err_kind(e: &std::io::Error) -> String {
    format!("{:?}", e.kind())
}

fn panic_msg(p: Box<dyn std::any::Any + Send>) -> String {
    let s = if let Some(s) = p.downcast_ref::<&str>() {
        s.to_string()
    } else if let Some(s) = p.downcast_ref::<String>() {
        s.clone()
    } else {
        "panic".to_string()
    };
    // keep it short and free of addresses
    s.chars().take(80).collect()
}

pub struct Sym {
    /// which instances are open, and with which (key, dir)
    pub open: [Option<(u8, u8)>; 3],
    pub cur: usize,
    /// per (instance key/dir identity, topic) payload sequence counters
    pub seq: std::collections::HashMap<(u8, u8, u8), u32>,
    pub incarnations: u64,
    pub multi: bool,
}

impl Sym {
    pub fn new(ops: &[Op]) -> Self {
        let multi = ops.iter().any(|o| matches!(o, Op::Open { .. } | Op::OpenKey { .. }));
        let mut s = Sym {
            open: [None, None, None],
            cur: 0,
            seq: Default::default(),
            incarnations: 0,
            multi,
        };
        if !multi {
            s.open[0] = Some((0, 0));
            s.incarnations = 1;
        }
        s
    }
    /// symbolic effect of an op (no engine call)
    pub fn step(&mut self, op: &Op) {
        match op {
            Op::Append { t, .. } => {
                self.bump(*t, 1);
            }
            Op::Batch { t, lens } => {
                self.bump(*t, lens.len() as u32);
            }
            Op::BatchN { t, n, .. } => {
                self.bump(*t, *n as u32);
            }
            Op::Reopen => self.incarnations += 1,
            Op::Restart => {
                self.incarnations += self.open.iter().filter(|o| o.is_some()).count() as u64
            }
            Op::Use { inst } => self.cur = *inst as usize % 3,
            Op::Open { inst, key, dir } => {
                self.open[*inst as usize % 3] = Some((*key, *dir));
                self.cur = *inst as usize % 3;
                self.incarnations += 1;
            }
            Op::Close { inst } => self.open[*inst as usize % 3] = None,
            Op::OpenKey { .. } => {
                self.open[0] = Some((0, 0));
                self.cur = 0;
            }
            _ => {}
        }
    }
    fn ident(&self) -> (u8, u8) {
        self.open[self.cur].unwrap_or((255, 255))
    }
    fn bump(&mut self, t: u8, n: u32) -> u32 {
        let (k, d) = self.ident();
        let e = self.seq.entry((k, d, t)).or_insert(0);
        let first = *e;
        *e += n;
        first
    }
}

struct Ctx {
    root: PathBuf,
    cfg: Config,
    inst: [Option<Walrus>; 3],
    sym: Sym,
}

fn clock_for(cfg: &Config, incarnation: u64) -> u64 {
    const BASE: u64 = 1_700_000_000_000;
    match cfg.clock {
        Clock::Forward => BASE + incarnation * 1000,
        Clock::Backward => BASE - incarnation * 1000,
        Clock::Real => 0,
        Clock::Fixed => BASE,
    }
}

fn build(root: &Path, cfg: &Config, key: u8, dir: u8, incarnation: u64) -> std::io::Result<Walrus> {
    verif::set_clock(clock_for(cfg, incarnation));
    let cons = match cfg.cons {
        Consistency::Strict => ReadConsistency::StrictlyAtOnce,
        Consistency::Alo(n) => ReadConsistency::AtLeastOnce { persist_every: n },
    };
    let fs = match cfg.fsync {
        Fsync::No => FsyncSchedule::NoFsync,
        Fsync::Each => FsyncSchedule::SyncEach,
        Fsync::Ms(n) => FsyncSchedule::Milliseconds(n),
    };
    Walrus::builder()
        .data_dir(root.join(format!("d{}", dir)))
        .key(KEYS[key as usize % KEYS.len()])
        .consistency(cons)
        .fsync_schedule(fs)
        .build()
}

pub fn inst_root(root: &Path, key: u8, dir: u8) -> PathBuf {
    // sanitize_namespace maps '/' to '_'
    let k = KEYS[key as usize % KEYS.len()].replace('/', "_");
    root.join(format!("d{}", dir)).join(k)
}

fn listing(root: &Path) -> Vec<String> {
    fn walk(base: &Path, p: &Path, out: &mut Vec<String>) {
        if let Ok(rd) = std::fs::read_dir(p) {
            for e in rd.flatten() {
                let path = e.path();
                let rel = path.strip_prefix(base).unwrap_or(&path).to_string_lossy().into_owned();
                if path.is_dir() {
                    out.push(format!("{}/|dir|0", rel));
                    walk(base, &path, out);
                } else {
                    let (len, h) = match std::fs::read(&path) {
                        Ok(b) => {
                            let end = b.iter().rposition(|&x| x != 0).map(|p| p + 1).unwrap_or(0);
                            (b.len(), fnv64(&b[..end]))
                        }
                        Err(_) => (0, 0),
                    };
                    out.push(format!("{}|{}|{:016x}", rel, len, h));
                }
            }
        }
    }
    let mut out = Vec::new();
    walk(root, root, &mut out);
    out.sort();
    out
}

impl Ctx {
    fn open_inst(&mut self, i: usize, key: u8, dir: u8) -> Res {
        let inc = self.sym.incarnations;
        match catch_unwind(AssertUnwindSafe(|| build(&self.root, &self.cfg, key, dir, inc))) {
            Ok(Ok(w)) => {
                self.inst[i] = Some(w);
                Res::Ok
            }
            Ok(Err(e)) => Res::Err(format!("open:{}", err_kind(&e))),
            Err(p) => Res::Panic(format!("open:{}", panic_msg(p))),
        }
    }

    fn close_inst(&mut self, i: usize) {
        if let Some(w) = self.inst[i].take() {
            drop(w);
            if self.cfg.gate_persist {
                // the persister of the dropped instance is parked at its gate; let it
                // observe the disconnect and exit (it cannot persist any more)
                verif::persist_step();
            }
        }
    }

    /// (re)open every instance that is symbolically open; `sym.incarnations` already
    /// counts them, so they get the last n incarnation numbers in instance order
    fn reopen_all(&mut self) -> Res {
        let open_now: Vec<(usize, u8, u8)> =
            self.sym.open.iter().enumerate().filter_map(|(i, o)| o.map(|(k, d)| (i, k, d))).collect();
        let n = open_now.len() as u64;
        let total = self.sym.incarnations;
        let base = total.saturating_sub(n);
        let mut res = Res::Ok;
        for (j, (i, k, d)) in open_now.iter().enumerate() {
            self.sym.incarnations = base + j as u64 + 1;
            let r = self.open_inst(*i, *k, *d);
            if r != Res::Ok {
                res = r;
            }
        }
        self.sym.incarnations = total;
        res
    }

    fn w(&self) -> Option<&Walrus> {
        self.inst[self.sym.cur].as_ref()
    }

    fn exec(&mut self, op: &Op) -> Res {
        // symbolic bookkeeping first (sequence numbers are taken before the call)
        let first_seq = match op {
            Op::Append { t, .. } => self.sym.bump(*t, 1),
            Op::Batch { t, lens } => self.sym.bump(*t, lens.len() as u32),
            Op::BatchN { t, n, .. } => self.sym.bump(*t, *n as u32),
            _ => 0,
        };
        match op {
            Op::Append { t, len } => {
                let data = payload(*t, first_seq, *len);
                let Some(w) = self.w() else { return Res::Err("closed".into()) };
                match catch_unwind(AssertUnwindSafe(|| w.append_for_topic(topic_name(*t), &data))) {
                    Ok(Ok(())) => Res::Ok,
                    Ok(Err(e)) => Res::Err(err_kind(&e)),
                    Err(p) => Res::Panic(panic_msg(p)),
                }
            }
            Op::Batch { t, lens } => {
                let datas: Vec<Vec<u8>> =
                    lens.iter().enumerate().map(|(i, l)| payload(*t, first_seq + i as u32, *l)).collect();
                let refs: Vec<&[u8]> = datas.iter().map(|d| d.as_slice()).collect();
                let Some(w) = self.w() else { return Res::Err("closed".into()) };
                match catch_unwind(AssertUnwindSafe(|| w.batch_append_for_topic(topic_name(*t), &refs))) {
                    Ok(Ok(())) => Res::Ok,
                    Ok(Err(e)) => Res::Err(err_kind(&e)),
                    Err(p) => Res::Panic(panic_msg(p)),
                }
            }
            Op::BatchN { t, n, len } => {
                // aliases of one buffer are enough for the rejected shapes; for accepted
                // shapes each entry still gets its own sequence number
                let datas: Vec<Vec<u8>> = if *n <= 4096 && *len < 64 * 1024 {
                    (0..*n).map(|i| payload(*t, first_seq + i as u32, *len)).collect()
                } else {
                    vec![payload(*t, first_seq, *len)]
                };
                let refs: Vec<&[u8]> = (0..*n).map(|i| datas[i.min(datas.len() - 1)].as_slice()).collect();
                let Some(w) = self.w() else { return Res::Err("closed".into()) };
                match catch_unwind(AssertUnwindSafe(|| w.batch_append_for_topic(topic_name(*t), &refs))) {
                    Ok(Ok(())) => Res::Ok,
                    Ok(Err(e)) => Res::Err(err_kind(&e)),
                    Err(p) => Res::Panic(panic_msg(p)),
                }
            }
            Op::AppendLongTopic { name_len, len, batch } => {
                let name: String = std::iter::repeat('z').take(*name_len).collect();
                let data = payload(9, 0, *len);
                let Some(w) = self.w() else { return Res::Err("closed".into()) };
                let r = if *batch {
                    catch_unwind(AssertUnwindSafe(|| w.batch_append_for_topic(&name, &[&data[..], &data[..]])))
                } else {
                    catch_unwind(AssertUnwindSafe(|| w.append_for_topic(&name, &data)))
                };
                match r {
                    Ok(Ok(())) => Res::Ok,
                    Ok(Err(e)) => Res::Err(err_kind(&e)),
                    Err(p) => Res::Panic(panic_msg(p)),
                }
            }
            Op::ReadNext { t, ckpt } => {
                let Some(w) = self.w() else { return Res::Err("closed".into()) };
                match catch_unwind(AssertUnwindSafe(|| w.read_next(topic_name(*t), *ckpt))) {
                    Ok(Ok(Some(e))) => Res::One(ent_of(&e.data)),
                    Ok(Ok(None)) => Res::None,
                    Ok(Err(e)) => Res::Err(err_kind(&e)),
                    Err(p) => Res::Panic(panic_msg(p)),
                }
            }
            Op::BatchRead { t, budget, ckpt, start } => {
                let Some(w) = self.w() else { return Res::Err("closed".into()) };
                match catch_unwind(AssertUnwindSafe(|| {
                    w.batch_read_for_topic(topic_name(*t), *budget, *ckpt, *start)
                })) {
                    Ok(Ok(v)) => Res::Many(v.iter().map(|e| ent_of(&e.data)).collect()),
                    Ok(Err(e)) => Res::Err(err_kind(&e)),
                    Err(p) => Res::Panic(panic_msg(p)),
                }
            }
            Op::Drain { t } => {
                let Some(w) = self.w() else { return Res::Err("closed".into()) };
                let mut out = Vec::new();
                for _ in 0..20000 {
                    match catch_unwind(AssertUnwindSafe(|| w.read_next(topic_name(*t), true))) {
                        Ok(Ok(Some(e))) => out.push(ent_of(&e.data)),
                        Ok(Ok(None)) => break,
                        Ok(Err(e)) => return Res::Err(err_kind(&e)),
                        Err(p) => return Res::Panic(panic_msg(p)),
                    }
                }
                Res::Many(out)
            }
            Op::Reopen => {
                let i = self.sym.cur;
                let Some((k, d)) = self.sym.open[i] else { return Res::Err("closed".into()) };
                self.close_inst(i);
                self.sym.incarnations += 1;
                self.open_inst(i, k, d)
            }
            Op::Restart => {
                // in-process emulation (non-isolated jobs): clean shutdown of every open
                // instance, process-global trackers forgotten, everything reopened
                for i in 0..3 {
                    self.close_inst(i);
                }
                Walrus::__verif_reset_globals();
                let n = self.sym.open.iter().filter(|o| o.is_some()).count() as u64;
                self.sym.incarnations += n;
                self.reopen_all()
            }
            Op::MarkClean { t } => {
                let Some(w) = self.w() else { return Res::Err("closed".into()) };
                w.mark_topic_clean(topic_name(*t));
                Res::Ok
            }
            Op::MarkDirty { t } => {
                let Some(w) = self.w() else { return Res::Err("closed".into()) };
                w.mark_topic_dirty(topic_name(*t));
                Res::Ok
            }
            Op::PersistTick => {
                verif::persist_step();
                Res::Unit
            }
            Op::ReclaimTick => {
                verif::bg_step();
                Res::Unit
            }
            Op::Use { inst } => {
                self.sym.cur = *inst as usize % 3;
                Res::Unit
            }
            Op::Open { inst, key, dir } => {
                let i = *inst as usize % 3;
                self.close_inst(i);
                self.sym.open[i] = Some((*key, *dir));
                self.sym.cur = i;
                self.sym.incarnations += 1;
                self.open_inst(i, *key, *dir)
            }
            Op::Close { inst } => {
                let i = *inst as usize % 3;
                self.close_inst(i);
                self.sym.open[i] = None;
                Res::Unit
            }
            Op::OpenKey { key, ctor } => {
                self.close_inst(0);
                let data = self.root.join("data");
                let _ = std::fs::create_dir_all(&data);
                let _ = std::fs::write(self.root.join("sentinel"), b"s");
                verif::set_clock(0);
                let cons = ReadConsistency::StrictlyAtOnce;
                let key = key.clone();
                let ctor = *ctor;
                let r = catch_unwind(AssertUnwindSafe(|| -> std::io::Result<Walrus> {
                    if ctor != 4 {
                        unsafe { std::env::set_var("WALRUS_DATA_DIR", &data) };
                    }
                    match ctor {
                        0 => Walrus::new_for_key(&key),
                        1 => Walrus::with_consistency_for_key(&key, cons),
                        2 => Walrus::with_consistency_and_schedule_for_key(&key, cons, FsyncSchedule::NoFsync),
                        3 => Walrus::builder().key(&key).fsync_schedule(FsyncSchedule::NoFsync).build(),
                        4 => Walrus::builder().data_dir(data.clone()).key(&key).fsync_schedule(FsyncSchedule::NoFsync).build(),
                        5 => {
                            if key.contains('\0') {
                                return Err(std::io::Error::new(std::io::ErrorKind::InvalidInput, "NUL in env value"));
                            }
                            unsafe { std::env::set_var("WALRUS_INSTANCE_KEY", &key) };
                            let r = Walrus::with_consistency_and_schedule(cons, FsyncSchedule::NoFsync);
                            unsafe { std::env::remove_var("WALRUS_INSTANCE_KEY") };
                            r
                        }
                        _ => {
                            walrus_rust::wal::__set_thread_namespace_for_tests(&key);
                            let r = Walrus::with_consistency_and_schedule(cons, FsyncSchedule::NoFsync);
                            walrus_rust::wal::__clear_thread_namespace_for_tests();
                            r
                        }
                    }
                }));
                self.sym.open[0] = Some((0, 0));
                self.sym.cur = 0;
                match r {
                    Ok(Ok(w)) => {
                        self.inst[0] = Some(w);
                        Res::Ok
                    }
                    Ok(Err(e)) => Res::Err(format!("open:{}", err_kind(&e))),
                    Err(p) => Res::Panic(format!("open:{}", panic_msg(p))),
                }
            }
        }
    }

    fn post(&self) -> (Vec<u64>, Vec<bool>) {
        match self.w() {
            Some(w) => (
                TOPICS.iter().map(|t| w.get_topic_entry_count(t)).collect(),
                TOPICS.iter().map(|t| w.topic_is_clean(t)).collect(),
            ),
            None => (vec![], vec![]),
        }
    }
}

pub fn process_setup() {
    static ONCE: std::sync::Once = std::sync::Once::new();
    ONCE.call_once(|| {
        unsafe { std::env::set_var("WALRUS_QUIET", "1") };
        std::panic::set_hook(Box::new(|_| {}));
        let ring = std::env::var("WALMC_BG_RING").ok().and_then(|s| s.parse().ok()).unwrap_or(8u64);
        verif::set_bg_ring_entries(ring);
    });
}

#[derive(serde::Serialize, serde::Deserialize, Default)]
pub struct SegOut {
    pub obs: Vec<Obs>,
    pub digest: Option<String>,
    pub digests: Vec<String>,
    pub listings: Vec<Vec<String>>,
}

/// Run ops[from..to] (no Restart inside) after symbolically replaying ops[..from].
/// `emit` is called after every op with the partial output so that the parent knows
/// how far the child got if it dies.
pub fn run_segment(root: &Path, job: &Job, from: usize, to: usize, last: bool, mut emit: impl FnMut(&str)) {
    process_setup();
    if !job.isolate {
        Walrus::__verif_reset_globals();
    }
    match job.cfg.backend {
        Backend::Fd => walrus_rust::enable_fd_backend(),
        Backend::Mmap => walrus_rust::disable_fd_backend(),
    }
    verif::enable_gates(job.cfg.gate_bg, job.cfg.gate_persist);
    if job.cfg.gate_bg {
        verif::set_bg_sleep_ms(1);
    }
    let recorder: Option<std::sync::Arc<Recorder>> = if job.trace || !job.faults.is_empty() {
        let r = std::sync::Arc::new(Recorder::new(root, job.faults.clone()));
        verif::install_hooks(Some(r.clone()));
        Some(r)
    } else {
        verif::install_hooks(None);
        None
    };
    if from == 0 && !job.pre_image.is_empty() {
        if let Err(e) = materialise(root, &job.pre_image) {
            emit(&format!("X\"materialise failed: {}\"", e));
            emit("E");
            return;
        }
    }
    let mut sym = Sym::new(&job.ops);
    for op in &job.ops[..from] {
        sym.step(op);
    }
    let mut ctx = Ctx { root: root.to_path_buf(), cfg: job.cfg.clone(), inst: [None, None, None], sym };
    // (re)open what is open at this point
    let reopen_after_restart = from > 0;
    if !job.pre_image.is_empty() {
        // a recovery run happens later than every incarnation of the recorded workload
        ctx.sym.incarnations += 100;
    }
    if job.cfg.decoy_first {
        verif::set_clock(1_600_000_000_000 + from as u64);
        let decoy = Walrus::builder().data_dir(root.join("d9")).key("decoy").fsync_schedule(FsyncSchedule::NoFsync).build();
        drop(decoy);
    }
    let open_res = ctx.reopen_all();
    if reopen_after_restart {
        // the Restart op itself is observed by the child that comes up after it
        let (counts, clean) = ctx.post();
        let o = Obs { res: open_res, counts, clean };
        emit(&format!("O{}", serde_json::to_string(&o).unwrap()));
        if job.digest_each {
            emit(&format!("D{}", dig(&ctx)));
        }
        if job.want_listing {
            emit(&format!("L{}", serde_json::to_string(&listing(&ctx.root)).unwrap()));
        }
    } else if open_res != Res::Ok {
        emit(&format!("X{}", serde_json::to_string(&open_res).unwrap()));
    }
    for (oi, op) in job.ops[from..to].iter().enumerate() {
        if let Some(r) = &recorder {
            r.mark(from + oi, false);
        }
        let res = ctx.exec(op);
        if let Some(r) = &recorder {
            r.mark(from + oi, true);
        }
        let (counts, clean) = ctx.post();
        let o = Obs { res, counts, clean };
        emit(&format!("O{}", serde_json::to_string(&o).unwrap()));
        if job.digest_each {
            emit(&format!("D{}", dig(&ctx)));
        }
        if job.want_listing {
            emit(&format!("L{}", serde_json::to_string(&listing(&ctx.root)).unwrap()));
        }
    }
    if last && job.want_digest {
        emit(&format!("F{}", dig(&ctx)));
    }
    // clean shutdown
    for i in 0..3 {
        ctx.close_inst(i);
    }
    if let Some(r) = &recorder {
        if job.trace {
            let evs = r.evs.lock().unwrap();
            emit(&format!("T{}", serde_json::to_string(&*evs).unwrap()));
        }
        verif::install_hooks(None);
    }
    emit("E");
}

fn dig(ctx: &Ctx) -> String {
    match ctx.w() {
        Some(w) => match catch_unwind(AssertUnwindSafe(|| w.__verif_digest(&TOPICS))) {
            Ok(s) => s,
            Err(_) => "\"digest-panic\"".to_string(),
        },
        None => "null".to_string(),
    }
}

// ---------------------------------------------------------------------------------
// E2: I/O trace recorder, fault answers and directory-image materialisation
// ---------------------------------------------------------------------------------

pub struct Recorder {
    root: String,
    pub evs: std::sync::Mutex<Vec<Ev>>,
    faults: Vec<(String, i64)>,
    counters: std::sync::Mutex<std::collections::HashMap<String, i64>>,
    batch_no: std::sync::atomic::AtomicI64,
    /// (absolute path, file offset, length) of the writes of the batch in flight, by index
    batch_writes: std::sync::Mutex<std::collections::HashMap<usize, (String, u64, usize)>>,
}

impl Recorder {
    pub fn new(root: &Path, faults: Vec<(String, i64)>) -> Self {
        Recorder {
            root: root.to_string_lossy().into_owned(),
            evs: Default::default(),
            faults,
            counters: Default::default(),
            batch_no: std::sync::atomic::AtomicI64::new(-1),
            batch_writes: Default::default(),
        }
    }
    fn rel(&self, p: &str) -> String {
        p.strip_prefix(&self.root).map(|s| s.trim_start_matches('/').to_string()).unwrap_or_else(|| format!("!{}", p))
    }
    pub fn mark(&self, op: usize, end: bool) {
        self.evs.lock().unwrap().push(Ev::Mark { op, end });
    }
}

impl verif::Hooks for Recorder {
    fn io(&self, ev: &verif::Io<'_>) {
        use verif::Io;
        let e = match ev {
            Io::Write { path, off, data, osync } => Ev::Write { f: self.rel(path), off: *off, data: hex(data), osync: *osync },
            Io::Flush { path } => Ev::Flush { f: self.rel(path) },
            Io::BatchWrite { path, off, data, idx } => {
                if !self.faults.is_empty() {
                    self.batch_writes.lock().unwrap().insert(*idx, (path.to_string(), *off, data.len()));
                }
                Ev::BatchWrite { f: self.rel(path), off: *off, data: hex(data), idx: *idx }
            }
            Io::BatchSubmit { n } => {
                self.batch_no.fetch_add(1, std::sync::atomic::Ordering::SeqCst);
                Ev::BatchSubmit { n: *n }
            }
            Io::BatchDone => Ev::BatchDone,
            Io::Mkdir { path } => Ev::Mkdir { p: self.rel(path) },
            Io::Create { path } => Ev::Create { f: self.rel(path) },
            Io::SetLen { path, len } => Ev::SetLen { f: self.rel(path), len: *len },
            Io::FsyncFile { path } => Ev::FsyncFile { f: self.rel(path) },
            Io::DirSync { path } => Ev::DirSync { p: self.rel(path) },
            Io::WriteFile { path, data } => Ev::WriteFile { f: self.rel(path), data: hex(data) },
            Io::Rename { from, to } => Ev::Rename { from: self.rel(from), to: self.rel(to) },
            Io::Unlink { path } => Ev::Unlink { f: self.rel(path) },
        };
        self.evs.lock().unwrap().push(e);
    }
    fn fault(&self, site: &'static str) -> Option<std::io::Error> {
        let mut c = self.counters.lock().unwrap();
        let n = c.entry(site.to_string()).or_insert(0);
        let cur = *n;
        *n += 1;
        if self.faults.iter().any(|(s, k)| s == site && *k == cur) {
            Some(std::io::Error::new(std::io::ErrorKind::Other, format!("injected fault at {}#{}", site, cur)))
        } else {
            None
        }
    }
    fn cqe(&self, idx: usize, res: i32) -> i32 {
        let b = self.batch_no.load(std::sync::atomic::Ordering::SeqCst);
        let key = format!("cqe:{}:{}", b, idx);
        for (s, v) in self.faults.iter() {
            if *s == key {
                // Make the injected completion true: the kernel did write everything, so the
                // bytes the completion denies are taken back (zeroed) in the file: all of
                // them for a failed write, the tail for a short one.
                if let Some((path, off, len)) = self.batch_writes.lock().unwrap().get(&idx).cloned() {
                    let kept = if *v < 0 { 0 } else { (*v as usize).min(len) };
                    if kept < len {
                        use std::os::unix::fs::FileExt;
                        if let Ok(fh) = std::fs::OpenOptions::new().write(true).open(&path) {
                            let _ = fh.write_all_at(&vec![0u8; len - kept], off + kept as u64);
                        }
                    }
                }
                return *v as i32;
            }
        }
        res
    }
}

/// Applies recorded events to `root` (what the file system would hold if exactly these
/// mutations had completed).
pub fn materialise(root: &Path, evs: &[Ev]) -> std::io::Result<()> {
    use std::os::unix::fs::FileExt;
    for e in evs {
        match e {
            Ev::Mkdir { p } => std::fs::create_dir_all(root.join(p))?,
            Ev::Create { f } => {
                if let Some(parent) = root.join(f).parent() {
                    std::fs::create_dir_all(parent)?;
                }
                std::fs::File::create(root.join(f))?;
            }
            Ev::SetLen { f, len } => {
                let fh = std::fs::OpenOptions::new().write(true).open(root.join(f))?;
                fh.set_len(*len)?;
            }
            Ev::Write { f, off, data, .. } | Ev::BatchWrite { f, off, data, .. } => {
                let fh = std::fs::OpenOptions::new().write(true).open(root.join(f))?;
                fh.write_all_at(&unhex(data), *off)?;
            }
            Ev::WriteFile { f, data } => {
                if let Some(parent) = root.join(f).parent() {
                    std::fs::create_dir_all(parent)?;
                }
                std::fs::write(root.join(f), unhex(data))?;
            }
            Ev::Rename { from, to } => std::fs::rename(root.join(from), root.join(to))?,
            Ev::Unlink { f } => {
                let _ = std::fs::remove_file(root.join(f));
            }
            Ev::Mark { .. } | Ev::Flush { .. } | Ev::BatchSubmit { .. } | Ev::BatchDone | Ev::FsyncFile { .. } | Ev::DirSync { .. } => {}
        }
    }
    Ok(())
}
