//! E5: damaged-directory enumeration (C11). Seeds are directory images produced by the engine
//! itself (recorded I/O traces of fixed workloads). Every bounded mutation of the meaningful
//! regions (entry headers, index files), every truncation, zeroing and stray file of a fixed
//! list is materialised, opened by the real recovery code and read; the binary is normally
//! built with AddressSanitizer so that undefined behaviour fails loudly.
use crate::explore::{write_replay, Outcome, Stats, Violation};
use crate::known::Known;
use crate::ops::*;
use crate::pool::Pool;
use std::collections::{BTreeMap, HashMap, HashSet};
use std::time::Instant;

struct Seed {
    name: &'static str,
    cfg: Config,
    ops: Vec<Op>,
}

fn seeds(thorough: bool) -> Vec<Seed> {
    let s = crate::checks::sizes();
    let h = s.half;
    let mk = |be: Backend| {
        let mut c = Config::new(Consistency::Strict, be);
        c.gate_bg = true;
        c.gate_persist = true;
        c
    };
    let mut v = vec![
        Seed {
            name: "two-topics+sealed-cursor",
            cfg: mk(Backend::Fd),
            ops: vec![
                Op::Append { t: 0, len: 10 },
                Op::Append { t: 1, len: h },
                Op::Append { t: 0, len: h },
                Op::Append { t: 0, len: h },
                Op::Append { t: 0, len: 129 },
                Op::ReadNext { t: 0, ckpt: true },
                Op::MarkClean { t: 1 },
            ],
        },
        Seed {
            name: "batch+tail-cursor(mmap)",
            cfg: mk(Backend::Mmap),
            ops: vec![
                Op::Batch { t: 0, lens: vec![7, 0, 300] },
                Op::Append { t: 1, len: 20 },
                Op::BatchRead { t: 0, budget: 8, ckpt: true, start: None },
            ],
        },
    ];
    if thorough {
        v.push(Seed {
            name: "multi-unit+restart",
            cfg: mk(Backend::Fd),
            ops: vec![Op::Append { t: 0, len: s.over }, Op::Append { t: 0, len: 5 }, Op::Restart, Op::Append { t: 0, len: 6 }, Op::Append { t: 1, len: h }, Op::ReadNext { t: 0, ckpt: true }],
        });
        v.push(Seed {
            name: "many-small(mmap)",
            cfg: mk(Backend::Mmap),
            ops: vec![Op::Batch { t: 0, lens: vec![1, 2, 3, 4, 5, 6, 7] }, Op::Append { t: 0, len: 128 }, Op::ReadNext { t: 0, ckpt: true }, Op::ReadNext { t: 0, ckpt: true }],
        });
    }
    v
}

#[derive(Clone)]
struct Mutant {
    extra: Vec<Ev>,
    desc: String,
    /// a single-byte change inside an entry header
    header_byte: bool,
}

fn final_files(image: &[Ev]) -> BTreeMap<String, Vec<u8>> {
    // replay the image in memory
    let mut files: BTreeMap<String, Vec<u8>> = BTreeMap::new();
    for e in image {
        match e {
            Ev::Create { f } => {
                files.insert(f.clone(), vec![]);
            }
            Ev::SetLen { f, len } => {
                files.entry(f.clone()).or_default().resize(*len as usize, 0);
            }
            Ev::Write { f, off, data, .. } | Ev::BatchWrite { f, off, data, .. } => {
                let d = unhex(data);
                let v = files.entry(f.clone()).or_default();
                if v.len() < *off as usize + d.len() {
                    v.resize(*off as usize + d.len(), 0);
                }
                v[*off as usize..*off as usize + d.len()].copy_from_slice(&d);
            }
            Ev::WriteFile { f, data } => {
                files.insert(f.clone(), unhex(data));
            }
            Ev::Rename { from, to } => {
                if let Some(v) = files.remove(from) {
                    files.insert(to.clone(), v);
                }
            }
            Ev::Unlink { f } => {
                files.remove(f);
            }
            _ => {}
        }
    }
    files
}

fn mutants(image: &[Ev], thorough: bool) -> Vec<Mutant> {
    let files = final_files(image);
    let mut out: Vec<Mutant> = vec![];
    let vals = |b: u8| -> Vec<u8> {
        let mut v = vec![0x00, 0xFF, b ^ 0x01, b ^ 0x80, b.wrapping_add(1)];
        v.retain(|x| *x != b);
        v.sort();
        v.dedup();
        v
    };
    // entry headers: offsets of every recorded entry write into a WAL file
    let mut headers: Vec<(String, u64)> = vec![];
    for e in image {
        match e {
            Ev::Write { f, off, data, .. } | Ev::BatchWrite { f, off, data, .. } if data.len() / 2 >= 256 && !f.contains("index") => {
                headers.push((f.clone(), *off));
            }
            _ => {}
        }
    }
    headers.sort();
    headers.dedup();
    let span = if thorough { 96usize } else { 48 };
    for (f, off) in headers.iter() {
        let Some(content) = files.get(f) else { continue };
        for i in 0..span {
            let pos = *off as usize + i;
            if pos >= content.len() {
                break;
            }
            for v in vals(content[pos]) {
                out.push(Mutant {
                    extra: vec![Ev::Write { f: f.clone(), off: pos as u64, data: hex(&[v]), osync: false }],
                    desc: format!("byte {} of the entry header at {}+{} set to {:#04x}", i, base(f), off, v),
                    header_byte: true,
                });
            }
        }
        // payload byte flip (checksum must catch it)
        let ppos = *off as usize + 256;
        if ppos < content.len() && content[ppos] != 0 {
            out.push(Mutant { extra: vec![Ev::Write { f: f.clone(), off: ppos as u64, data: hex(&[content[ppos] ^ 0x01]), osync: false }], desc: format!("first payload byte of the entry at {}+{} flipped", base(f), off), header_byte: false });
        }
        // zeroed header / zeroed unit start
        out.push(Mutant { extra: vec![Ev::Write { f: f.clone(), off: *off, data: hex(&[0u8; 256]), osync: false }], desc: format!("header at {}+{} zeroed", base(f), off), header_byte: false });
    }
    // index files in full
    for (f, content) in files.iter() {
        if !f.ends_with("_index.db") {
            continue;
        }
        let step = if thorough { 1 } else { 2 };
        for i in (0..content.len()).step_by(step) {
            for v in vals(content[i]) {
                let mut c = content.clone();
                c[i] = v;
                out.push(Mutant { extra: vec![Ev::WriteFile { f: f.clone(), data: hex(&c) }], desc: format!("byte {} of {} set to {:#04x}", i, base(f), v), header_byte: false });
            }
        }
        for cut in 0..content.len() {
            out.push(Mutant { extra: vec![Ev::WriteFile { f: f.clone(), data: hex(&content[..cut]) }], desc: format!("{} truncated to {} bytes", base(f), cut), header_byte: false });
        }
        // leftover temporary copies
        out.push(Mutant { extra: vec![Ev::WriteFile { f: format!("{}.tmp", f), data: hex(content) }], desc: format!("leftover {}.tmp (copy)", base(f)), header_byte: false });
        out.push(Mutant { extra: vec![Ev::WriteFile { f: format!("{}.tmp", f), data: hex(&content[..content.len() / 2]) }], desc: format!("leftover {}.tmp (half written)", base(f)), header_byte: false });
    }
    // WAL files: truncations at unit boundaries, zeroed file, stray files
    let bs = crate::checks::sizes().bs as u64;
    let wal_files: Vec<&String> = files.keys().filter(|f| !f.contains("index")).collect();
    for f in wal_files.iter() {
        let len = files[*f].len() as u64;
        let mut cut = 0;
        while cut < len {
            out.push(Mutant { extra: vec![Ev::SetLen { f: (*f).clone(), len: cut }], desc: format!("{} truncated to {} bytes", base(f), cut), header_byte: false });
            out.push(Mutant { extra: vec![Ev::SetLen { f: (*f).clone(), len: cut + 100 }], desc: format!("{} truncated to {} bytes", base(f), cut + 100), header_byte: false });
            cut += bs;
        }
        out.push(Mutant { extra: vec![Ev::Write { f: (*f).clone(), off: 0, data: hex(&vec![0u8; len as usize]), osync: false }], desc: format!("{} zeroed", base(f)), header_byte: false });
        for u in 0..(len / bs) {
            out.push(Mutant { extra: vec![Ev::Write { f: (*f).clone(), off: u * bs, data: hex(&vec![0u8; bs as usize]), osync: false }], desc: format!("unit {} of {} zeroed", u, base(f)), header_byte: false });
        }
    }
    if let Some(f0) = wal_files.first() {
        let dir = f0.rsplit_once('/').map(|x| x.0).unwrap_or("");
        let content = files[*f0].clone();
        let p = |n: &str| if dir.is_empty() { n.to_string() } else { format!("{}/{}", dir, n) };
        out.push(Mutant { extra: vec![Ev::WriteFile { f: p("0"), data: String::new() }], desc: "stray empty file sorting first".into(), header_byte: false });
        out.push(Mutant { extra: vec![Ev::WriteFile { f: p("zzzz"), data: hex(b"garbage garbage garbage") }], desc: "stray garbage file sorting last".into(), header_byte: false });
        out.push(Mutant { extra: vec![Ev::WriteFile { f: p("0000000000001"), data: hex(&content) }], desc: "copy of a WAL file under a name sorting first".into(), header_byte: false });
        out.push(Mutant { extra: vec![Ev::Mkdir { p: p("subdir") }], desc: "stray sub-directory".into(), header_byte: false });
        let mut big = vec![0xABu8; content.len()];
        big[0] = 40;
        big[1] = 0;
        out.push(Mutant { extra: vec![Ev::WriteFile { f: p("1600000000000"), data: hex(&big) }], desc: "full-size garbage file with a plausible header length".into(), header_byte: false });
    }
    out
}

fn base(f: &str) -> &str {
    f.rsplit('/').next().unwrap_or(f)
}

pub fn run(pool: &Pool, tier: &str, kf: &Known) -> Outcome {
    let t0 = Instant::now();
    let thorough = tier == "thorough";
    let cap = if thorough { 1100.0 } else { 55.0 };
    let mut stats = Stats { exhaustive: true, ..Default::default() };
    let mut violations: Vec<(Violation, String)> = vec![];
    let mut known_lines: Vec<String> = vec![];
    let mut outcomes: HashSet<String> = HashSet::new();
    let sds = seeds(thorough);
    let nseeds = sds.len() as f64;
    let mut jid = 0u64;
    'seeds: for (si, seed) in sds.iter().enumerate() {
        let deadline = cap * (si as f64 + 1.0) / nseeds;
        jid += 1;
        let wjob = Job {
            id: jid,
            cfg: seed.cfg.clone(),
            ops: seed.ops.clone(),
            want_digest: false,
            digest_each: false,
            want_listing: false,
            isolate: true,
            trace: true,
            pre_image: vec![],
            faults: vec![],
            sched: None,
        };
        let wres = pool.run(vec![wjob.clone()]).remove(0);
        if wres.status != "ok" {
            stats.machinery_errors.push(format!("seed workload {} did not complete: {}", seed.name, wres.status));
            continue;
        }
        let image: Vec<Ev> = wres.trace.iter().filter(|e| !matches!(e, Ev::Mark { .. } | Ev::BatchSubmit { .. } | Ev::BatchDone)).cloned().collect();
        // entries appended per topic (the only payloads any read may return)
        let mut appended: HashMap<u8, HashSet<Ent>> = HashMap::new();
        let mut seq: HashMap<u8, u32> = HashMap::new();
        for (op, ob) in seed.ops.iter().zip(wres.obs.iter()) {
            match op {
                Op::Append { t, len } => {
                    let s = seq.entry(*t).or_insert(0);
                    if ob.res == Res::Ok {
                        appended.entry(*t).or_default().insert(ent_of(&payload(*t, *s, *len)));
                    }
                    *s += 1;
                }
                Op::Batch { t, lens } => {
                    let s = seq.entry(*t).or_insert(0);
                    for l in lens {
                        if ob.res == Res::Ok {
                            appended.entry(*t).or_default().insert(ent_of(&payload(*t, *s, *l)));
                        }
                        *s += 1;
                    }
                }
                _ => {}
            }
        }
        let ms = mutants(&image, thorough);
        let probe_ops = vec![
            Op::BatchRead { t: 0, budget: usize::MAX, ckpt: false, start: None },
            Op::ReadNext { t: 0, ckpt: false },
            Op::BatchRead { t: 0, budget: 300, ckpt: false, start: Some(0) },
            Op::BatchRead { t: 1, budget: 1, ckpt: false, start: Some(300) },
            Op::Drain { t: 0 },
            Op::Drain { t: 1 },
            Op::Append { t: 0, len: 3 },
            Op::Drain { t: 0 },
        ];
        let mut n_seed = 0u64;
        for chunk in ms.chunks(500) {
            if t0.elapsed().as_secs_f64() > deadline {
                stats.exhaustive = false;
                stats.cap_hit = Some(format!("time share used up in seed {} after {} of {} mutants", seed.name, n_seed, ms.len()));
                continue 'seeds;
            }
            let jobs: Vec<Job> = chunk
                .iter()
                .map(|m| {
                    jid += 1;
                    let mut img = image.clone();
                    img.extend(m.extra.iter().cloned());
                    Job {
                        id: jid,
                        cfg: seed.cfg.clone(),
                        ops: probe_ops.clone(),
                        want_digest: false,
                        digest_each: false,
                        want_listing: false,
                        isolate: false,
                        trace: false,
                        pre_image: img,
                        faults: vec![],
                        sched: None,
                    }
                })
                .collect();
            let results = pool.run(jobs.clone());
            for ((m, job), res) in chunk.iter().zip(jobs.iter()).zip(results.iter()) {
                stats.transitions += 1;
                n_seed += 1;
                let mut bad: Option<(String, String)> = None;
                if res.status.starts_with("internal:open-failed") {
                    if res.status.contains("Panic") {
                        bad = Some(("open.panic".into(), format!("opening the damaged directory panicked: {}", res.status.chars().take(160).collect::<String>())));
                    } else {
                        // a clean error on open is acceptable
                        outcomes.insert("open-error".into());
                    }
                } else if res.status.starts_with("internal") {
                    stats.machinery_errors.push(format!("{}: {}", res.status, m.desc));
                    continue;
                } else if res.status != "ok" {
                    bad = Some(("crash".into(), format!("the process opening / reading the damaged directory ended with {} (abort, signal, sanitizer report or hang) at op #{}", res.status, res.died_at.unwrap_or(0))));
                } else {
                    // the last append (op 6) is new; drains after it may return it
                    let fresh = ent_of(&payload(0, *seq.get(&0).unwrap_or(&0), 3));
                    for (oi, (op, ob)) in probe_ops.iter().zip(res.obs.iter()).enumerate() {
                        let t = match op {
                            Op::BatchRead { t, .. } | Op::ReadNext { t, .. } | Op::Drain { t } => *t,
                            _ => continue,
                        };
                        let ents: Vec<Ent> = match &ob.res {
                            Res::Many(v) => v.clone(),
                            Res::One(e) => vec![e.clone()],
                            Res::Panic(msg) => {
                                bad = Some(("read.panic".into(), format!("{} panicked: {}", op.short(), msg)));
                                break;
                            }
                            _ => vec![],
                        };
                        let offset_read = matches!(op, Op::BatchRead { start: Some(_), .. });
                        for (ei, e) in ents.iter().enumerate() {
                            let ok = appended.get(&t).map(|s| s.contains(e)).unwrap_or(false) || (t == 0 && *e == fresh) || (offset_read && ei == 0);
                            if !ok {
                                let elsewhere = appended.iter().any(|(tt, s)| *tt != t && s.contains(e));
                                let class = if elsewhere { "foreign.relabelled" } else { "foreign.payload" };
                                bad = Some((class.into(), format!("{} (probe #{}) returned a payload (len {}, fnv {:x}) that was never appended to topic {}{}", op.short(), oi, e.len, e.fnv, TOPICS[t as usize], if elsewhere { " (it is an entry of another topic)" } else { "" })));
                                break;
                            }
                        }
                        if bad.is_some() {
                            break;
                        }
                        outcomes.insert(format!("{}:{}", oi, ents.len()));
                    }
                }
                match bad {
                    None => {
                        stats.states += 1;
                        if stats.samples.len() < 8 && stats.states % 397 == 1 {
                            stats.samples.push(format!("[{}] {}", seed.name, m.desc));
                        }
                    }
                    Some((class, detail)) => {
                        // K-C11-header-owner-unprotected: one changed byte inside an entry header
                        // re-labels the entry: a read on another topic returns it unchanged
                        if class == "foreign.relabelled" && m.header_byte && kf.open("K-C11-header-owner-unprotected", "C11") {
                            stats.pruned_known += 1;
                            let c = stats.known_hits.entry("K-C11-header-owner-unprotected".into()).or_insert(0);
                            *c += 1;
                            if *c == 1 {
                                known_lines.push(format!("KNOWN-FINDING: property=C11 {} [K-C11-header-owner-unprotected] e.g. seed {}; mutation: {}; {}", kf.title("K-C11-header-owner-unprotected"), seed.name, m.desc, detail));
                            }
                            continue;
                        }
                        if violations.len() < 5 {
                            let again = pool.run(vec![job.clone()]);
                            let same = again[0].status == res.status && again[0].obs == res.obs;
                            if !same && res.status == "ok" {
                                stats.nondeterminism += 1;
                                stats.machinery_errors.push(format!("verdict not reproducible: {}", m.desc));
                                continue;
                            }
                            let v = Violation {
                                prop: "C11".into(),
                                cfg: seed.cfg.clone(),
                                ops: seed.ops.clone(),
                                class,
                                detail: format!("seed {}; mutation: {}; {}", seed.name, m.desc, detail),
                                obs: res.obs.clone(),
                                status: res.status.clone(),
                            };
                            let path = write_replay(&v);
                            if let Ok(text) = std::fs::read_to_string(&path) {
                                if let Ok(mut j) = serde_json::from_str::<serde_json::Value>(&text) {
                                    j["engine"] = serde_json::Value::String("walmc-damage".into());
                                    j["mutation"] = serde_json::to_value(&m.extra).unwrap_or_default();
                                    let _ = std::fs::write(&path, serde_json::to_string_pretty(&j).unwrap());
                                }
                            }
                            violations.push((v, path));
                        }
                    }
                }
            }
            if violations.len() >= 5 {
                break 'seeds;
            }
        }
        stats.per_config.insert(format!("{} [{}]", seed.name, seed.cfg.label()), (n_seed, ms.len() as u64));
    }
    stats.distinct_outcomes = outcomes.len();
    stats.violations = violations.len() as u64;
    Outcome { stats, violations, known_lines }
}
