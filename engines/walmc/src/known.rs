//! Known findings: genuine defects recorded (not repaired) in /verif/known_findings.json.
//! The file is read-only at run time. An entry is active only when its status is "open";
//! "fixed" entries suppress nothing. Each open entry names a predicate implemented here;
//! the predicate is as narrow as the failing step allows.
use crate::model::{Discrepancy, Model};
use crate::ops::*;
use serde::Deserialize;
use std::collections::BTreeMap;

#[derive(Deserialize, Clone, Debug)]
pub struct Entry {
    pub id: String,
    pub property: Vec<String>,
    pub status: String,
    pub title: String,
    #[serde(default)]
    pub witness: String,
}

#[derive(Default, Clone)]
pub struct Known {
    pub entries: BTreeMap<String, Entry>,
}

impl Known {
    pub fn load() -> Known {
        let path = std::env::var("WALMC_KNOWN").unwrap_or_else(|_| "/verif/known_findings.json".to_string());
        let mut k = Known::default();
        if let Ok(text) = std::fs::read_to_string(&path) {
            #[derive(Deserialize)]
            struct FileShape {
                findings: Vec<Entry>,
            }
            match serde_json::from_str::<FileShape>(&text) {
                Ok(f) => {
                    for e in f.findings {
                        k.entries.insert(e.id.clone(), e);
                    }
                }
                Err(e) => {
                    eprintln!("machinery error: cannot parse {}: {}", path, e);
                    std::process::exit(2);
                }
            }
        }
        k
    }
    pub fn open(&self, id: &str, prop: &str) -> bool {
        self.entries
            .get(id)
            .map(|e| e.status == "open" && e.property.iter().any(|p| p == prop))
            .unwrap_or(false)
    }
    pub fn title(&self, id: &str) -> String {
        self.entries.get(id).map(|e| e.title.clone()).unwrap_or_default()
    }
}

/// Returns the id of the open known finding that this failing step matches exactly.
pub fn classify(
    kf: &Known,
    prop: &str,
    cfg: &Config,
    ops: &[Op],
    res: &JobResult,
    pre: &Model,
    x: &Discrepancy,
) -> Option<String> {
    let _ = (cfg, res, pre);
    let last = ops.last()?;
    for (id, f) in PREDICATES.iter() {
        if kf.open(id, prop) && f(cfg, ops, last, res, pre, x) {
            return Some(id.to_string());
        }
    }
    None
}

type Pred = fn(&Config, &[Op], &Op, &JobResult, &Model, &Discrepancy) -> bool;

pub static PREDICATES: &[(&str, Pred)] = &[
    ("K-C13-block-id-collision", k_c13_block_id_collision),
    ("K-C06-tail-id-drift", k_c06_tail_id_drift),
    ("K-C12-cursor-not-rebased", k_c12_cursor_not_rebased),
];

/// Durable cursor positions are relative to the WAL files present when the process started
/// (chain position for sealed blocks, allocator block id for the tail). Reclaiming a file
/// shifts both, and nothing rebases the persisted position: after the next restart a
/// consumer in a sealed block skips as many of its blocks as the removed file held (entries
/// lost), a consumer in the tail does not find its block and starts it over (redelivery).
/// Failing step matched: a read / count discrepancy at or after a reopen / restart, and
/// before that restart a reclaim step removed a WAL file - legitimately: the reclaim oracle,
/// evaluated at that step on the engine's own state, found every block of the removed file
/// consumed (otherwise the history fails earlier, at the reclaim step, with
/// reclaim.unconsumed, which no finding covers).
fn k_c12_cursor_not_rebased(_cfg: &Config, ops: &[Op], _last: &Op, res: &JobResult, _pre: &Model, x: &Discrepancy) -> bool {
    if !matches!(x.class, "count" | "read.order" | "read.empty") {
        return false;
    }
    let Some(ri) = ops.iter().rposition(|o| matches!(o, Op::Reopen | Op::Restart)) else { return false };
    if res.digests.len() < ops.len() {
        return false;
    }
    (1..ri).any(|ti| matches!(ops[ti], Op::ReclaimTick) && !crate::explore::deleted_wal_files(&res.digests[ti - 1], &res.digests[ti]).is_empty())
}

/// The durable cursor of a consumer that is in the writer's tail names the block by its
/// allocator id; recovery re-derives ids by position. A block that was handed out but
/// never written (the first append on a topic was rejected, or an empty batch opened a
/// topic) and that ends up last in its file shifts the ids of all later blocks by one, so
/// after a restart the persisted tail block is not found and the consumer starts over.
/// Failing step matched: StrictlyAtOnce; at or after a reopen/restart; pure redelivery
/// (higher count / longer drain, nothing lost or foreign); and in some incarnation before
/// that restart a topic received append-type ops of which none wrote anything (rejected
/// appends, empty batches), or the first entry written through a topic's writer was larger
/// than a block, so the block handed to that writer in that incarnation stayed unwritten.
fn k_c06_tail_id_drift(cfg: &Config, ops: &[Op], _last: &Op, res: &JobResult, _pre: &Model, x: &Discrepancy) -> bool {
    // The shifted ids either name no block (the consumer starts its block over: pure
    // redelivery) or name a later block of the topic (the entries in between are skipped:
    // pure loss); anything mixed, foreign or reordered is not this finding.
    // (AtLeastOnce consumers are hit the same way: starting the block over redelivers more
    // than persist_every entries.)
    let _ = cfg;
    if !(x.pure_redelivery || x.pure_loss) || !matches!(x.class, "count" | "read.order" | "read.empty") {
        return false;
    }
    let Some(ri) = ops.iter().rposition(|o| matches!(o, Op::Reopen | Op::Restart)) else { return false };
    // per incarnation (stretch between two reopen/restart events) before that restart: a topic
    // that received append-type ops of which none wrote anything had a block handed to its
    // writer that stayed unwritten
    let mut touched: std::collections::BTreeSet<u8> = Default::default();
    let mut wrote: std::collections::BTreeSet<u8> = Default::default();
    let mut long_topic = false;
    let mut unwritten = false;
    let fill = crate::checks::sizes().fill;
    // topics that already have a writer in the current incarnation
    let mut seen_writer: std::collections::BTreeSet<u8> = Default::default();
    for (i, op) in ops[..ri].iter().enumerate() {
        let ok = res.obs.get(i).map(|o| o.res == Res::Ok).unwrap_or(false);
        match op {
            Op::Append { t, len } => {
                touched.insert(*t);
                if ok {
                    // the first entry a writer gets is larger than the block it was handed:
                    // that block is given up without ever being written
                    if !seen_writer.contains(t) && *len > fill {
                        unwritten = true;
                    }
                    wrote.insert(*t);
                    seen_writer.insert(*t);
                }
            }
            Op::Batch { t, lens } => {
                touched.insert(*t);
                if ok && !lens.is_empty() {
                    if !seen_writer.contains(t) && lens[0] > fill {
                        unwritten = true;
                    }
                    wrote.insert(*t);
                    seen_writer.insert(*t);
                }
            }
            Op::BatchN { t, n, .. } => {
                touched.insert(*t);
                if ok && *n > 0 {
                    wrote.insert(*t);
                }
            }
            Op::AppendLongTopic { .. } => long_topic = true,
            Op::Reopen | Op::Restart => {
                if touched.iter().any(|t| !wrote.contains(t)) {
                    unwritten = true;
                }
                touched.clear();
                wrote.clear();
                seen_writer.clear();
            }
            _ => {}
        }
    }
    if touched.iter().any(|t| !wrote.contains(t)) {
        unwritten = true;
    }
    long_topic || unwritten
}

fn is_consuming(op: &Op) -> bool {
    matches!(op, Op::ReadNext { ckpt: true, .. } | Op::BatchRead { ckpt: true, start: None, .. } | Op::Drain { .. })
}

/// Two live instances in one process number their blocks from 1 and share the
/// process-global block tracker, which keeps the first registration of an id. Consumption
/// by one instance is therefore credited to the other instance's file, and the reclaimer
/// may delete that file with unconsumed entries in it.
/// Failing step matched: after a ReclaimTick, an instance observes pure loss (fewer / later
/// entries than expected, or a lower count - nothing foreign, duplicated or reordered)
/// although a *different* instance, opened in the same process before the tick, did the
/// consuming reads that preceded the tick.
fn k_c13_block_id_collision(_cfg: &Config, ops: &[Op], _last: &Op, _res: &JobResult, _pre: &Model, x: &Discrepancy) -> bool {
    if !x.pure_loss || !matches!(x.class, "count" | "read.order" | "read.empty") {
        return false;
    }
    // replay instance selection symbolically
    let mut cur: u8 = 0;
    let mut opened: std::collections::BTreeSet<u8> = Default::default();
    let mut consumers_before_tick: std::collections::BTreeSet<u8> = Default::default();
    let mut consumers: std::collections::BTreeSet<u8> = Default::default();
    let mut ticked = false;
    for op in ops.iter() {
        match op {
            Op::Open { inst, .. } => {
                opened.insert(*inst);
                cur = *inst;
            }
            Op::Use { inst } => cur = *inst,
            Op::ReclaimTick => {
                ticked = true;
                consumers_before_tick = consumers.clone();
            }
            o if is_consuming(o) => {
                consumers.insert(cur);
            }
            _ => {}
        }
    }
    // `cur` is now the instance that observed the loss
    ticked && opened.len() >= 2 && consumers_before_tick.iter().any(|i| *i != cur)
}

