//! Known findings: genuine defects recorded (not repaired) in /verif/known_findings.json.
//! The file is read-only at run time. An entry is active only when its status is "open";
//! "fixed" entries suppress nothing. Each open entry names a predicate implemented here;
//! the predicate is as narrow as the failing step allows.
use crate::model::{Discrepancy, Model};
use crate::ops::*;
use serde::Deserialize;
use std::collections::BTreeMap;

#[derive(Deserialize, Clone, Debug)]
pub struct Entry {
    pub id: String,
    pub property: Vec<String>,
    pub status: String,
    pub title: String,
    #[serde(default)]
    pub witness: String,
}

#[derive(Default, Clone)]
pub struct Known {
    pub entries: BTreeMap<String, Entry>,
}

impl Known {
    pub fn load() -> Known {
        let path = std::env::var("WALMC_KNOWN").unwrap_or_else(|_| "/verif/known_findings.json".to_string());
        let mut k = Known::default();
        if let Ok(text) = std::fs::read_to_string(&path) {
            #[derive(Deserialize)]
            struct FileShape {
                findings: Vec<Entry>,
            }
            match serde_json::from_str::<FileShape>(&text) {
                Ok(f) => {
                    for e in f.findings {
                        k.entries.insert(e.id.clone(), e);
                    }
                }
                Err(e) => {
                    eprintln!("machinery error: cannot parse {}: {}", path, e);
                    std::process::exit(2);
                }
            }
        }
        k
    }
    pub fn open(&self, id: &str, prop: &str) -> bool {
        self.entries
            .get(id)
            .map(|e| e.status == "open" && e.property.iter().any(|p| p == prop))
            .unwrap_or(false)
    }
    pub fn title(&self, id: &str) -> String {
        self.entries.get(id).map(|e| e.title.clone()).unwrap_or_default()
    }
}

/// Returns the id of the open known finding that this failing step matches exactly.
pub fn classify(
    kf: &Known,
    prop: &str,
    cfg: &Config,
    ops: &[Op],
    res: &JobResult,
    pre: &Model,
    x: &Discrepancy,
) -> Option<String> {
    let _ = (cfg, res, pre);
    let last = ops.last()?;
    for (id, f) in PREDICATES.iter() {
        if kf.open(id, prop) && f(cfg, ops, last, res, pre, x) {
            return Some(id.to_string());
        }
    }
    None
}

type Pred = fn(&Config, &[Op], &Op, &JobResult, &Model, &Discrepancy) -> bool;

pub static PREDICATES: &[(&str, Pred)] = &[];
