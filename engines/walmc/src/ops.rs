//! Operation alphabet, configurations and observations shared by the driver (parent)
//! and the executor (forked child).
use serde::{Deserialize, Serialize};

pub const TOPICS: [&str; 3] = ["a", "b", "c"];

#[derive(Clone, Copy, Debug, Serialize, Deserialize, PartialEq, Eq, Hash, PartialOrd, Ord)]
pub enum Consistency {
    Strict,
    Alo(u32),
}

#[derive(Clone, Copy, Debug, Serialize, Deserialize, PartialEq, Eq, Hash, PartialOrd, Ord)]
pub enum Backend {
    Fd,
    Mmap,
}

#[derive(Clone, Copy, Debug, Serialize, Deserialize, PartialEq, Eq, Hash, PartialOrd, Ord)]
pub enum Fsync {
    No,
    Each,
    Ms(u64),
}

#[derive(Clone, Copy, Debug, Serialize, Deserialize, PartialEq, Eq, Hash, PartialOrd, Ord)]
pub enum Clock {
    Forward,
    Backward,
    Real,
    /// every process sees the same wall-clock millisecond
    Fixed,
}

#[derive(Clone, Debug, Serialize, Deserialize, PartialEq, Eq, Hash)]
pub struct Config {
    pub cons: Consistency,
    pub backend: Backend,
    pub fsync: Fsync,
    pub clock: Clock,
    pub gate_bg: bool,
    pub gate_persist: bool,
    /// every process first creates (and drops) an unrelated NoFsync instance, so that the
    /// instance under test is not the one that decides the process-wide O_SYNC choice
    #[serde(default)]
    pub decoy_first: bool,
}

impl Config {
    pub fn new(cons: Consistency, backend: Backend) -> Self {
        Config {
            cons,
            backend,
            fsync: Fsync::No,
            clock: Clock::Forward,
            gate_bg: false,
            gate_persist: false,
            decoy_first: false,
        }
    }
    pub fn label(&self) -> String {
        format!(
            "{:?}/{:?}/{:?}/{:?}{}{}{}",
            self.cons,
            self.backend,
            self.fsync,
            self.clock,
            if self.gate_bg { "/bg-gated" } else { "" },
            if self.gate_persist { "/persist-gated" } else { "" },
            if self.decoy_first { "/second-instance-of-its-process" } else { "" }
        )
    }
}

/// Topic index into TOPICS; payloads are generated from (topic, per-topic sequence
/// number, length), so an op only names a length.
#[derive(Clone, Debug, Serialize, Deserialize, PartialEq, Eq, Hash, PartialOrd, Ord)]
pub enum Op {
    Append { t: u8, len: usize },
    Batch { t: u8, lens: Vec<usize> },
    /// batch of `n` entries of length `len` (for the > 2000 entries / byte cap cases)
    BatchN { t: u8, n: usize, len: usize },
    /// append with a topic name of `name_len` bytes (header overflow)
    AppendLongTopic { name_len: usize, len: usize, batch: bool },
    ReadNext { t: u8, ckpt: bool },
    BatchRead { t: u8, budget: usize, ckpt: bool, start: Option<u64> },
    /// repeat consuming read_next until None (bounded), report all entries
    Drain { t: u8 },
    Reopen,
    Restart,
    MarkClean { t: u8 },
    MarkDirty { t: u8 },
    PersistTick,
    ReclaimTick,
    /// instance selector for multi-instance programs: subsequent ops go to instance i
    Use { inst: u8 },
    /// open instance i (key index, data-dir index)
    Open { inst: u8, key: u8, dir: u8 },
    Close { inst: u8 },
    /// C14: open instance 0 through constructor `ctor` with an arbitrary namespace key
    OpenKey { key: String, ctor: u8 },
}

impl Op {
    pub fn short(&self) -> String {
        let t = |i: &u8| TOPICS.get(*i as usize).copied().unwrap_or("?");
        match self {
            Op::Append { t: x, len } => format!("append({},{})", t(x), len),
            Op::Batch { t: x, lens } => format!("batch({},{:?})", t(x), lens),
            Op::BatchN { t: x, n, len } => format!("batchN({},{}x{})", t(x), n, len),
            Op::AppendLongTopic { name_len, len, batch } => {
                format!("appendLongTopic(name={},{}{})", name_len, len, if *batch { ",batch" } else { "" })
            }
            Op::ReadNext { t: x, ckpt } => format!("read_next({},{})", t(x), ckpt),
            Op::BatchRead { t: x, budget, ckpt, start } => {
                let b = if *budget == usize::MAX { "MAX".to_string() } else { budget.to_string() };
                format!("batch_read({},{},{},{:?})", t(x), b, ckpt, start)
            }
            Op::Drain { t: x } => format!("drain({})", t(x)),
            Op::Reopen => "reopen".into(),
            Op::Restart => "restart".into(),
            Op::MarkClean { t: x } => format!("mark_clean({})", t(x)),
            Op::MarkDirty { t: x } => format!("mark_dirty({})", t(x)),
            Op::PersistTick => "persist_tick".into(),
            Op::ReclaimTick => "reclaim_tick".into(),
            Op::Use { inst } => format!("use({})", inst),
            Op::Open { inst, key, dir } => format!("open({},key{},dir{})", inst, key, dir),
            Op::Close { inst } => format!("close({})", inst),
            Op::OpenKey { key, ctor } => format!("open_key({:?},ctor{})", key, ctor),
        }
    }
}

pub fn hist_str(ops: &[Op]) -> String {
    ops.iter().map(|o| o.short()).collect::<Vec<_>>().join("; ")
}

#[derive(Clone, Debug, Serialize, Deserialize, PartialEq, Eq, Hash)]
pub struct Ent {
    pub len: usize,
    pub fnv: u64,
}

#[derive(Clone, Debug, Serialize, Deserialize, PartialEq, Eq, Hash)]
pub enum Res {
    Ok,
    Err(String),
    Panic(String),
    None,
    One(Ent),
    Many(Vec<Ent>),
    /// executor-level no-op (Use, Open of multi-instance, ticks)
    Unit,
}

#[derive(Clone, Debug, Serialize, Deserialize, PartialEq, Eq, Hash)]
pub struct Obs {
    pub res: Res,
    /// entry counts of TOPICS[0..3] on the current instance after the op
    pub counts: Vec<u64>,
    /// topic_is_clean of TOPICS[0..3] after the op
    pub clean: Vec<bool>,
}

#[derive(Clone, Debug, Serialize, Deserialize)]
pub struct Job {
    pub id: u64,
    pub cfg: Config,
    pub ops: Vec<Op>,
    pub want_digest: bool,
    /// ask for a digest after every op (C02 invariance oracle)
    #[serde(default)]
    pub digest_each: bool,
    /// ask for a listing of the data dir tree after every op (C12/C13/C14)
    #[serde(default)]
    pub want_listing: bool,
    /// run every segment in a freshly forked process (pristine process-global engine
    /// state, real process restarts); otherwise the history runs inside the worker
    #[serde(default)]
    pub isolate: bool,
    /// record every durable mutation (H3) and return the trace
    #[serde(default)]
    pub trace: bool,
    /// directory image to materialise (relative paths) before the instance is opened
    #[serde(default)]
    pub pre_image: Vec<Ev>,
    /// fault plan: (site, n) = the n-th occurrence (0-based) of `site` fails;
    /// site "cqe:<batch>:<idx>" with value = the completion result to report
    #[serde(default)]
    pub faults: Vec<(String, i64)>,
    /// E3: run `ops` as the set-up, then these per-thread programs under the cooperative
    /// scheduler with the given choice prefix
    #[serde(default)]
    pub sched: Option<SchedSpec>,
}

#[derive(Clone, Debug, Serialize, Deserialize)]
pub struct SchedSpec {
    pub threads: Vec<Vec<Op>>,
    pub prefix: Vec<usize>,
}

#[derive(Clone, Debug, Serialize, Deserialize, Default)]
pub struct Decision {
    /// enabled threads in canonical order (the thread that ran last first, if enabled)
    pub enabled: Vec<usize>,
    pub chosen: usize,
    /// the thread that ran last is among the enabled ones (switching away = preemption)
    pub last_enabled: bool,
    /// names of the points the enabled threads are parked at
    pub at: Vec<String>,
}

#[derive(Clone, Debug, Serialize, Deserialize, Default)]
pub struct SchedOut {
    pub decisions: Vec<Decision>,
    /// per thread, per op: (result, decision index at call, decision index at return)
    pub results: Vec<Vec<(Res, usize, usize)>>,
    pub final_drain: Vec<Ent>,
    pub physical: Vec<Ent>,
    pub status: String,
    /// results of the set-up ops (run sequentially before the threads start)
    #[serde(default)]
    pub setup_results: Vec<Res>,
}

/// One recorded durable mutation (paths relative to the job's root directory), or a
/// harness marker around an API call.
#[derive(Clone, Debug, Serialize, Deserialize, PartialEq, Eq, Hash)]
pub enum Ev {
    Mark { op: usize, end: bool },
    Write { f: String, off: u64, data: String, osync: bool },
    Flush { f: String },
    BatchWrite { f: String, off: u64, data: String, idx: usize },
    BatchSubmit { n: usize },
    BatchDone,
    Mkdir { p: String },
    Create { f: String },
    SetLen { f: String, len: u64 },
    FsyncFile { f: String },
    DirSync { p: String },
    WriteFile { f: String, data: String },
    Rename { from: String, to: String },
    Unlink { f: String },
}

pub fn hex(b: &[u8]) -> String {
    const H: &[u8; 16] = b"0123456789abcdef";
    let mut s = String::with_capacity(b.len() * 2);
    for x in b {
        s.push(H[(x >> 4) as usize] as char);
        s.push(H[(x & 15) as usize] as char);
    }
    s
}
pub fn unhex(s: &str) -> Vec<u8> {
    let b = s.as_bytes();
    let v = |c: u8| -> u8 {
        match c {
            b'0'..=b'9' => c - b'0',
            b'a'..=b'f' => c - b'a' + 10,
            _ => 0,
        }
    };
    (0..b.len() / 2).map(|i| (v(b[2 * i]) << 4) | v(b[2 * i + 1])).collect()
}

#[derive(Clone, Debug, Serialize, Deserialize, Default)]
pub struct JobResult {
    pub id: u64,
    pub obs: Vec<Obs>,
    pub digest: Option<String>,
    #[serde(default)]
    pub digests: Vec<String>,
    #[serde(default)]
    pub listings: Vec<Vec<String>>,
    /// "ok" | "timeout" | "signal:<n>" | "exit:<n>" | "internal:<msg>"
    pub status: String,
    /// index of the op during which the child died (when status != ok)
    pub died_at: Option<usize>,
    #[serde(default)]
    pub trace: Vec<Ev>,
    #[serde(default)]
    pub sched: Option<SchedOut>,
}

pub fn fnv64(data: &[u8]) -> u64 {
    const FNV_OFFSET: u64 = 0xcbf29ce484222325;
    const FNV_PRIME: u64 = 0x00000100000001B3;
    let mut hash = FNV_OFFSET;
    for &b in data {
        hash ^= b as u64;
        hash = hash.wrapping_mul(FNV_PRIME);
    }
    hash
}

/// Self-identifying payload. For len >= 6: [0xE7, topic, seq le32, filler...]; shorter
/// payloads are identified by their length only.
pub fn payload(topic: u8, seq: u32, len: usize) -> Vec<u8> {
    let mut v = Vec::with_capacity(len);
    if len >= 6 {
        v.push(0xE7);
        v.push(topic);
        v.extend_from_slice(&seq.to_le_bytes());
        for i in 6..len {
            v.push(
                (seq as usize)
                    .wrapping_mul(31)
                    .wrapping_add(i.wrapping_mul(7))
                    .wrapping_add(topic as usize) as u8,
            );
        }
    } else {
        for _ in 0..len {
            v.push(0x40 + len as u8);
        }
    }
    v
}

pub fn ent_of(bytes: &[u8]) -> Ent {
    Ent { len: bytes.len(), fnv: fnv64(bytes) }
}
