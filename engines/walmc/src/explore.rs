//! E1: breadth-first explicit-state exploration of the real engine. A state is a
//! history; a transition re-executes the history plus one op in a pristine process and
//! checks the last step against the reference model. States are merged when the engine
//! digest and the model state coincide.
use crate::known::{self, Known};
use crate::model::{Discrepancy, Model};
use crate::ops::*;
use crate::pool::Pool;
use std::collections::{BTreeMap, HashSet};
use std::time::Instant;

pub struct Spec {
    pub prop: &'static str,
    pub cfgs: Vec<Config>,
    pub roots: Vec<Vec<Op>>,
    pub alphabet: Box<dyn Fn(&Model, &[Op]) -> Vec<Op> + Send + Sync>,
    pub max_depth: usize,
    /// discrepancy classes that are violations of this property
    pub owned: Vec<&'static str>,
    pub dedup: bool,
    pub time_cap_s: f64,
    /// extra per-transition oracle on the digest sequence / listings (None = ok)
    pub extra: Option<Box<dyn Fn(&Model, &[Op], &JobResult) -> Vec<Discrepancy> + Send + Sync>>,
    pub digest_each: bool,
    pub want_listing: bool,
    /// fork a pristine process per execution (and per Restart segment)
    pub isolate: bool,
    /// a discrepancy of an owned class counts only if this holds for (pre-state model, history)
    pub owns_if: Option<Box<dyn Fn(&Model, &[Op]) -> bool + Send + Sync>>,
    /// differential mode: every history is also executed under this configuration and the
    /// API-level observations must be identical (class "backend.diff")
    pub diff_cfg: Option<Box<dyn Fn(&Config) -> Config + Send + Sync>>,
    /// C02: non-consuming ops applied to every reached state, differentially
    pub probe: Option<ProbeSpec>,
    /// every reached state is additionally extended by these op lists (not part of the
    /// frontier) and the model is stepped through them: e.g. [Restart, Drain a, Drain b]
    pub tails: Vec<Vec<Op>>,
}

pub struct ProbeSpec {
    /// the non-consuming ops to try at a state (may depend on the model)
    pub peeks: Box<dyn Fn(&Model) -> Vec<Op> + Send + Sync>,
    /// observation suffixes: the same suffix is executed with and without the peek
    pub suffixes: Vec<Vec<Op>>,
}

#[derive(Clone)]
struct Node {
    ops: Vec<Op>,
    model: Model,
    obs_hash: u64,
}

#[derive(Default, Clone, serde::Serialize)]
pub struct Stats {
    pub states: u64,
    pub transitions: u64,
    pub merged: u64,
    pub pruned_known: u64,
    pub pruned_foreign: u64,
    pub violations: u64,
    pub max_depth_completed: usize,
    pub depth_reached: usize,
    pub exhaustive: bool,
    pub cap_hit: Option<String>,
    pub distinct_outcomes: usize,
    pub nondeterminism: u64,
    pub machinery_errors: Vec<String>,
    pub per_config: BTreeMap<String, (u64, u64)>,
    pub samples: Vec<String>,
    pub known_hits: BTreeMap<String, u64>,
    pub foreign_classes: BTreeMap<String, u64>,
}

pub struct Violation {
    pub prop: String,
    pub cfg: Config,
    pub ops: Vec<Op>,
    pub class: String,
    pub detail: String,
    pub obs: Vec<Obs>,
    pub status: String,
}

fn owned(spec: &Spec, pre: &Model, ops: &[Op], x: &Discrepancy) -> bool {
    (spec.owned.contains(&x.class) && spec.owns_if.as_ref().map(|f| f(pre, ops)).unwrap_or(true)) || x.class == "backend.diff"
}

fn is_core(class: &str) -> bool {
    matches!(class, "read.order" | "read.empty" | "read.err" | "read.panic")
}

fn hash_obs(obs: &[Obs]) -> u64 {
    let s = serde_json::to_string(obs).unwrap_or_default();
    fnv64(s.as_bytes())
}

pub fn write_replay(v: &Violation) -> String {
    let dir = format!("/verif/replays/{}", v.prop);
    let _ = std::fs::create_dir_all(&dir);
    let body = serde_json::json!({
        "property": v.prop,
        "engine": "walmc-seq",
        "config": v.cfg,
        "ops": v.ops,
        "history": hist_str(&v.ops),
        "class": v.class,
        "detail": v.detail,
        "observations": v.obs,
        "child_status": v.status,
        "geometry": format!("{:?}", walrus_rust::wal::verif::geometry()),
    });
    let text = serde_json::to_string_pretty(&body).unwrap();
    let h = fnv64(format!("{:?}{}{}", v.cfg, hist_str(&v.ops), v.class).as_bytes());
    let path = format!("{}/{:016x}.json", dir, h);
    let _ = std::fs::write(&path, text);
    path
}

/// API-level comparison of two executions of the same history (results and counts;
/// clean flags are excluded because the marker persister is free-running).
pub fn diff_obs(a: &JobResult, b: &JobResult) -> Option<String> {
    if a.status != b.status {
        return Some(format!("process status differs: {} vs {}", a.status, b.status));
    }
    for (i, (x, y)) in a.obs.iter().zip(b.obs.iter()).enumerate() {
        if x.res != y.res {
            return Some(format!("op #{}: {:?} vs {:?}", i, brief(&x.res), brief(&y.res)));
        }
        if x.counts != y.counts {
            return Some(format!("op #{}: counts {:?} vs {:?}", i, x.counts, y.counts));
        }
    }
    if a.obs.len() != b.obs.len() {
        return Some(format!("{} vs {} observations", a.obs.len(), b.obs.len()));
    }
    None
}

fn brief(r: &Res) -> String {
    match r {
        Res::Many(v) => format!("Many(lens {:?})", v.iter().take(16).map(|e| e.len).collect::<Vec<_>>()),
        Res::One(e) => format!("One(len {})", e.len),
        other => format!("{:?}", other),
    }
}

pub struct Outcome {
    pub stats: Stats,
    pub violations: Vec<(Violation, String)>,
    pub known_lines: Vec<String>,
}

/// Run one job twice more and require identical observations.
pub fn confirm(pool: &Pool, job: &Job, first: &JobResult) -> bool {
    let rs = pool.run(vec![job.clone(), job.clone()]);
    rs.iter().all(|r| r.status == first.status && r.obs == first.obs)
}

pub fn explore(pool: &Pool, spec: &Spec, kf: &Known) -> Outcome {
    let t0 = Instant::now();
    let geom = walrus_rust::wal::verif::geometry();
    let mut stats = Stats { exhaustive: true, ..Default::default() };
    let mut violations: Vec<(Violation, String)> = Vec::new();
    let mut known_lines: Vec<String> = Vec::new();
    let mut outcome_set: HashSet<u64> = HashSet::new();
    let mut jid = 0u64;
    let max_violations = 4usize;

    let ncfg = spec.cfgs.len().max(1) as f64;
    for (cfg_i, cfg) in spec.cfgs.iter().enumerate() {
        // every configuration gets an equal share of the wall-clock cap
        let cfg_deadline = spec.time_cap_s * (cfg_i as f64 + 1.0) / ncfg;
        let mut seen: HashSet<(u64, u64)> = HashSet::new();
        let mut frontier: Vec<Node> = Vec::new();
        let cfg_label = cfg.label();
        let mut cfg_states = 0u64;
        let mut cfg_trans = 0u64;

        // roots: execute whole, step the model through every op
        let mut root_jobs = Vec::new();
        for r in spec.roots.iter() {
            jid += 1;
            root_jobs.push(Job {
                id: jid,
                cfg: cfg.clone(),
                ops: r.clone(),
                want_digest: spec.dedup,
                digest_each: spec.digest_each,
                want_listing: spec.want_listing,
                isolate: spec.isolate,
                trace: false,
                pre_image: vec![],
                faults: vec![],
                sched: None,
            });
        }
        let root_results = pool.run(root_jobs.clone());
        for (job, res) in root_jobs.iter().zip(root_results.iter()) {
            stats.transitions += 1;
            cfg_trans += 1;
            let multi = job.ops.iter().any(|o| matches!(o, Op::Open { .. }));
            let mut model = Model::new(cfg, multi, geom.max_alloc);
            let mut bad: Option<Discrepancy> = None;
            if res.status != "ok" {
                bad = Some(Discrepancy { pure_loss: false, pure_redelivery: false, class: "crash", detail: format!("child {} in root", res.status) });
            } else {
                for (op, ob) in job.ops.iter().zip(res.obs.iter()) {
                    let pre = model.clone();
                    let ds = model.step(op, ob);
                    if let Some(x) = ds.into_iter().find(|x| owned(spec, &pre, &job.ops, x)) {
                        bad = Some(x);
                        break;
                    }
                }
                if bad.is_none() {
                    if let Some(ex) = &spec.extra {
                        bad = ex(&model, &job.ops, res).into_iter().find(|x| owned(spec, &model, &job.ops, x));
                    }
                }
            }
            if let Some(x) = bad {
                handle_bad(pool, spec, kf, cfg, job, res, &model, x, job.ops.len().saturating_sub(1), &mut stats, &mut violations, &mut known_lines);
                continue;
            }
            if model.broken {
                stats.pruned_foreign += 1;
                continue;
            }
            let key = (fnv64(res.digest.clone().unwrap_or_default().as_bytes()), fnv64(model.key().as_bytes()));
            if !spec.dedup || seen.insert(key) {
                stats.states += 1;
                cfg_states += 1;
                frontier.push(Node { ops: job.ops.clone(), model, obs_hash: hash_obs(&res.obs) });
            }
        }

        if let Some(ps) = &spec.probe {
            run_probes(pool, spec, ps, kf, cfg, &frontier, &mut jid, &mut stats, &mut violations, &mut known_lines, t0 + std::time::Duration::from_secs_f64(cfg_deadline));
        }
        if !spec.tails.is_empty() {
            run_tails(pool, spec, kf, cfg, &frontier, &mut jid, &mut stats, &mut violations, &mut known_lines);
        }
        let mut depth = 0usize;
        let mut capped = false;
        while depth < spec.max_depth && !frontier.is_empty() && violations.len() < max_violations {
            depth += 1;
            let mut next: Vec<Node> = Vec::new();
            // build jobs lazily in chunks to bound memory
            let mut pending: Vec<(usize, Op)> = Vec::new();
            for (ni, node) in frontier.iter().enumerate() {
                for op in (spec.alphabet)(&node.model, &node.ops) {
                    pending.push((ni, op));
                }
            }
            let chunk = 4_000usize;
            let mut pos = 0usize;
            while pos < pending.len() {
                if t0.elapsed().as_secs_f64() > cfg_deadline {
                    capped = true;
                    break;
                }
                let end = (pos + chunk).min(pending.len());
                let mut jobs = Vec::with_capacity(end - pos);
                for (ni, op) in pending[pos..end].iter() {
                    jid += 1;
                    let mut ops = frontier[*ni].ops.clone();
                    ops.push(op.clone());
                    jobs.push(Job {
                        id: jid,
                        cfg: cfg.clone(),
                        ops,
                        want_digest: spec.dedup,
                        digest_each: spec.digest_each,
                        want_listing: spec.want_listing,
                        isolate: spec.isolate,
                trace: false,
                pre_image: vec![],
                faults: vec![],
                sched: None,
                    });
                }
                let results = pool.run(jobs.clone());
                let results2: Option<Vec<JobResult>> = spec.diff_cfg.as_ref().map(|f| {
                    let jobs2: Vec<Job> = jobs
                        .iter()
                        .map(|j| {
                            let mut j2 = j.clone();
                            j2.cfg = f(&j.cfg);
                            j2
                        })
                        .collect();
                    pool.run(jobs2)
                });
                for (ri, (((ni, op), job), res)) in
                    pending[pos..end].iter().zip(jobs.iter()).zip(results.iter()).enumerate()
                {
                    stats.transitions += 1;
                    cfg_trans += 1;
                    let node = &frontier[*ni];
                    if res.status.starts_with("internal") {
                        stats.machinery_errors.push(format!("{}: {}", res.status, hist_str(&job.ops)));
                        continue;
                    }
                    let mut model = node.model.clone();
                    let mut bad: Option<Discrepancy> = None;
                    let mut all_ds: Vec<Discrepancy> = Vec::new();
                    if res.status != "ok" {
                        bad = Some(Discrepancy { pure_loss: false, pure_redelivery: false,
                            class: "crash",
                            detail: format!(
                                "engine process {} during op #{} ({})",
                                res.status,
                                res.died_at.unwrap_or(0),
                                job.ops.get(res.died_at.unwrap_or(0)).map(|o| o.short()).unwrap_or_default()
                            ),
                        });
                    } else if res.obs.len() != job.ops.len() {
                        stats.machinery_errors.push(format!("short observation list: {}", hist_str(&job.ops)));
                        continue;
                    } else {
                        // determinism of the prefix
                        if hash_obs(&res.obs[..res.obs.len() - 1]) != node.obs_hash {
                            stats.nondeterminism += 1;
                            if stats.machinery_errors.len() < 5 {
                                stats.machinery_errors.push(format!("prefix replay diverged: {}", hist_str(&job.ops)));
                            }
                            continue;
                        }
                        let ob = res.obs.last().unwrap();
                        outcome_set.insert(fnv64(serde_json::to_string(&ob.res).unwrap_or_default().as_bytes()));
                        all_ds = model.step(op, ob);
                        if spec.prop == "C12" && matches!(op, Op::ReclaimTick) && res.digests.len() == job.ops.len() && job.ops.len() >= 2 {
                            let n = res.digests.len();
                            if let Some(msg) = reclaim_oracle(cfg.cons == Consistency::Strict, &res.digests[n - 2], &res.digests[n - 1]) {
                                all_ds.push(Discrepancy { class: "reclaim.unconsumed", detail: msg, pure_loss: false, pure_redelivery: false });
                            }
                        }
                        if let Some(ex) = &spec.extra {
                            all_ds.extend(ex(&model, &job.ops, res));
                        }
                        if let Some(r2) = results2.as_ref().map(|v| &v[ri]) {
                            if let Some(msg) = diff_obs(res, r2) {
                                all_ds.push(Discrepancy { class: "backend.diff", detail: msg, pure_loss: false, pure_redelivery: false });
                            }
                        }
                        // a core FIFO discrepancy that this check does not own makes every
                        // other observation of the step unreliable: the branch is foreign
                        let foreign_core = all_ds.iter().any(|x| is_core(x.class) && !spec.owned.contains(&x.class));
                        // a difference between the two backends is this check's business even
                        // when one of them also departs from the reference model
                        let backend_diff = all_ds.iter().find(|x| x.class == "backend.diff").cloned();
                        if let Some(x) = backend_diff {
                            bad = Some(x);
                        } else if !foreign_core {
                            bad = all_ds.iter().find(|x| owned(spec, &node.model, &job.ops, x)).cloned();
                        } else {
                            model.broken = true;
                        }
                    }
                    if let Some(x) = bad {
                        handle_bad(pool, spec, kf, cfg, job, res, &node.model, x, job.ops.len().saturating_sub(1), &mut stats, &mut violations, &mut known_lines);
                        continue;
                    }
                    if model.broken || res.status != "ok" {
                        stats.pruned_foreign += 1;
                        for x in all_ds.iter() {
                            *stats.foreign_classes.entry(x.class.to_string()).or_insert(0) += 1;
                        }
                        continue;
                    }
                    for x in all_ds.iter() {
                        *stats.foreign_classes.entry(x.class.to_string()).or_insert(0) += 1;
                    }
                    let mut dg = res.digest.clone().unwrap_or_default();
                    if let Some(r2) = results2.as_ref().map(|v| &v[ri]) {
                        dg.push_str(&r2.digest.clone().unwrap_or_default());
                    }
                    let key = (fnv64(dg.as_bytes()), fnv64(model.key().as_bytes()));
                    if !spec.dedup || seen.insert(key) {
                        stats.states += 1;
                        cfg_states += 1;
                        if stats.samples.len() < 6 && (stats.states % 97 == 1 || depth == spec.max_depth) {
                            stats.samples.push(format!("[{}] {}", cfg_label, hist_str(&job.ops)));
                        }
                        next.push(Node { ops: job.ops.clone(), model, obs_hash: hash_obs(&res.obs) });
                    } else {
                        stats.merged += 1;
                    }
                }
                pos = end;
            }
            if capped {
                stats.exhaustive = false;
                stats.cap_hit = Some(format!(
                    "time cap {} s hit in config {} at depth {} (depth {} fully covered)",
                    spec.time_cap_s,
                    cfg_label,
                    depth,
                    depth - 1
                ));
                break;
            }
            stats.depth_reached = stats.depth_reached.max(depth);
            frontier = next;
            if !spec.tails.is_empty() {
                run_tails(pool, spec, kf, cfg, &frontier, &mut jid, &mut stats, &mut violations, &mut known_lines);
            }
            if let Some(ps) = &spec.probe {
                if t0.elapsed().as_secs_f64() <= cfg_deadline {
                    run_probes(pool, spec, ps, kf, cfg, &frontier, &mut jid, &mut stats, &mut violations, &mut known_lines, t0 + std::time::Duration::from_secs_f64(cfg_deadline));
                } else {
                    capped = true;
                    stats.exhaustive = false;
                    stats.cap_hit = Some(format!("time cap hit before probing depth {} states in {}", depth, cfg_label));
                    break;
                }
            }
        }
        let completed = if capped { depth.saturating_sub(1) } else { depth };
        if cfg_i == 0 || completed < stats.max_depth_completed {
            stats.max_depth_completed = completed;
        }
        stats.per_config.insert(cfg_label, (cfg_states, cfg_trans));
        if violations.len() >= max_violations {
            break;
        }
    }
    stats.distinct_outcomes = outcome_set.len();
    stats.violations = violations.len() as u64;
    Outcome { stats, violations, known_lines }
}

/// WAL files of a digest: (positional name, content hash)
fn digest_wal_files(d: &serde_json::Value) -> Vec<(String, String)> {
    d["files"]
        .as_array()
        .map(|a| {
            a.iter()
                .filter(|f| !f["dir"].as_bool().unwrap_or(false))
                .filter_map(|f| {
                    let n = f["name"].as_str()?;
                    if n.starts_with('F') && n[1..].chars().all(|c| c.is_ascii_digit()) {
                        Some((n.to_string(), format!("{}:{}", f["len"], f["fnv"].as_str().unwrap_or(""))))
                    } else {
                        None
                    }
                })
                .collect()
        })
        .unwrap_or_default()
}

/// Positional names (in `before`) of the WAL files that are gone in `after`.
pub fn deleted_wal_files(before: &str, after: &str) -> Vec<String> {
    let (Ok(b), Ok(a)) = (serde_json::from_str::<serde_json::Value>(before), serde_json::from_str::<serde_json::Value>(after)) else { return vec![] };
    let mut left: Vec<String> = digest_wal_files(&a).into_iter().map(|x| x.1).collect();
    let mut gone = vec![];
    for (name, h) in digest_wal_files(&b) {
        if let Some(p) = left.iter().position(|x| *x == h) {
            left.remove(p);
        } else {
            gone.push(name);
        }
    }
    gone
}

/// Direct oracle for the reclaimer (C12), evaluated on the engine's own state right before a
/// reclaim step: a WAL file that the step removed must hold no block that some topic's
/// consumer has not moved past - in memory and, for StrictlyAtOnce, in the durable cursor -
/// and no writer's active block.
pub fn reclaim_oracle(strict: bool, before: &str, after: &str) -> Option<String> {
    let gone = deleted_wal_files(before, after);
    if gone.is_empty() {
        return None;
    }
    let b: serde_json::Value = serde_json::from_str(before).ok()?;
    let topics = b["topics"].as_object()?;
    for f in gone.iter() {
        for (t, v) in topics.iter() {
            if v["writer"]["blk"]["file"].as_str() == Some(f.as_str()) {
                return Some(format!("the reclaimer removed WAL file {} while it holds the active block of topic {:?}", f, t));
            }
            let Some(chain) = v["chain"].as_array() else { continue };
            let cur = v["cur_idx"].as_u64().unwrap_or(0);
            let cur_off = v["cur_off"].as_u64().unwrap_or(0);
            let in_tail = v["idx"]["tail"].as_u64() == Some(1);
            let durable = v["idx"]["i"].as_u64();
            let durable_off = v["idx"]["off"].as_u64().unwrap_or(0);
            for (p, blk) in chain.iter().enumerate() {
                let used = blk["used"].as_u64().unwrap_or(0);
                if blk["file"].as_str() != Some(f.as_str()) || used == 0 {
                    continue;
                }
                // a block is consumed when the cursor is behind it, or at its very end
                let p = p as u64;
                if !(p < cur || (p == cur && cur_off >= used)) {
                    return Some(format!(
                        "the reclaimer removed WAL file {} while block #{} of topic {:?} (chain position {}, {} bytes used) has not been consumed: the consumer is at chain position {}",
                        f, blk["id"], t, p, used, cur
                    ));
                }
                if strict && !in_tail && durable.map(|d| !(d > p || (d == p && durable_off >= used))).unwrap_or(true) {
                    return Some(format!(
                        "the reclaimer removed WAL file {} while the durable cursor of topic {:?} ({:?}) has not moved past its block at chain position {}",
                        f, t, v["idx"], p
                    ));
                }
            }
        }
    }
    None
}

#[allow(clippy::too_many_arguments)]
fn handle_bad(
    pool: &Pool,
    spec: &Spec,
    kf: &Known,
    cfg: &Config,
    job: &Job,
    res: &JobResult,
    pre_model: &Model,
    x: Discrepancy,
    fail_at: usize,
    stats: &mut Stats,
    violations: &mut Vec<(Violation, String)>,
    known_lines: &mut Vec<String>,
) {
    // known finding?
    let upto = (fail_at + 1).min(job.ops.len());
    if let Some(kid) = known::classify(kf, spec.prop, cfg, &job.ops[..upto], res, pre_model, &x) {
        stats.pruned_known += 1;
        let c = stats.known_hits.entry(kid.clone()).or_insert(0);
        *c += 1;
        if *c == 1 {
            known_lines.push(format!(
                "KNOWN-FINDING: property={} {} [{}] e.g. [{}] {} -> {}",
                spec.prop,
                kf.title(&kid),
                kid,
                cfg.label(),
                hist_str(&job.ops),
                x.detail
            ));
        }
        return;
    }
    // confirm determinism before reporting
    if !confirm(pool, job, res) {
        stats.nondeterminism += 1;
        stats.machinery_errors.push(format!("violation candidate not reproducible: {}", hist_str(&job.ops)));
        return;
    }
    let v = Violation {
        prop: spec.prop.to_string(),
        cfg: cfg.clone(),
        ops: job.ops.clone(),
        class: x.class.to_string(),
        detail: x.detail.clone(),
        obs: res.obs.clone(),
        status: res.status.clone(),
    };
    let path = write_replay(&v);
    violations.push((v, path));
}


fn consuming_twin(op: &Op) -> Option<Op> {
    match op {
        Op::ReadNext { t, ckpt: false } => Some(Op::ReadNext { t: *t, ckpt: true }),
        Op::BatchRead { t, budget, ckpt: false, start: None } => {
            Some(Op::BatchRead { t: *t, budget: *budget, ckpt: true, start: None })
        }
        _ => None,
    }
}

/// C02 oracles on every state of `nodes`:
///  (ii) a peek / offset read followed by an observation suffix gives the same suffix
///       observations as the suffix alone;
///  (iii) a peek returns exactly what the immediately following consuming read with the
///        same arguments returns;
///  (iv) content of offset reads (through the model, class offset.content).
#[allow(clippy::too_many_arguments)]
fn run_probes(
    pool: &Pool,
    spec: &Spec,
    ps: &ProbeSpec,
    kf: &Known,
    cfg: &Config,
    nodes: &[Node],
    jid: &mut u64,
    stats: &mut Stats,
    violations: &mut Vec<(Violation, String)>,
    known_lines: &mut Vec<String>,
    deadline: std::time::Instant,
) {
    // states are probed in groups so that memory stays bounded and the time share of the
    // configuration is honoured; a capped probe phase is reported, never called exhaustive
    let mut done = 0usize;
    for group in nodes.chunks(150) {
        if std::time::Instant::now() > deadline {
            stats.exhaustive = false;
            stats.cap_hit = Some(format!(
                "time share used up while probing the depth-{} states of {}: {} of {} states probed",
                group.first().map(|n| n.ops.len()).unwrap_or(0),
                cfg.label(),
                done,
                nodes.len()
            ));
            return;
        }
        run_probes_chunk(pool, spec, ps, kf, cfg, group, jid, stats, violations, known_lines);
        done += group.len();
        if violations.len() >= 5 {
            return;
        }
    }
}

#[allow(clippy::too_many_arguments)]
fn run_probes_chunk(
    pool: &Pool,
    spec: &Spec,
    ps: &ProbeSpec,
    kf: &Known,
    cfg: &Config,
    nodes: &[Node],
    jid: &mut u64,
    stats: &mut Stats,
    violations: &mut Vec<(Violation, String)>,
    known_lines: &mut Vec<String>,
) {
    let mk = |jid: &mut u64, ops: Vec<Op>| -> Job {
        *jid += 1;
        Job { id: *jid, cfg: cfg.clone(), ops, want_digest: false, digest_each: false, want_listing: false, isolate: spec.isolate, trace: false, pre_image: vec![], faults: vec![], sched: None }
    };
    // (node index, kind, peek index, suffix index)
    #[derive(Clone, Copy, PartialEq)]
    enum Kind {
        Base,
        WithPeek,
        Twin,
    }
    let mut jobs: Vec<Job> = Vec::new();
    let mut meta: Vec<(usize, Kind, usize, usize)> = Vec::new();
    let mut peeks_of: Vec<Vec<Op>> = Vec::new();
    for (ni, node) in nodes.iter().enumerate() {
        let peeks = (ps.peeks)(&node.model);
        for (si, suf) in ps.suffixes.iter().enumerate() {
            let mut ops = node.ops.clone();
            ops.extend(suf.iter().cloned());
            jobs.push(mk(jid, ops));
            meta.push((ni, Kind::Base, 0, si));
            for (pi, p) in peeks.iter().enumerate() {
                let mut ops = node.ops.clone();
                ops.push(p.clone());
                ops.extend(suf.iter().cloned());
                let mut j = mk(jid, ops);
                // offset-addressed reads are stateless: the reclamation bookkeeping (block
                // and file trackers of the digest) right after one must equal what it was
                // right before it
                j.digest_each = si == 0 && matches!(p, Op::BatchRead { start: Some(_), .. });
                jobs.push(j);
                meta.push((ni, Kind::WithPeek, pi, si));
            }
        }
        for (pi, p) in peeks.iter().enumerate() {
            if let Some(tw) = consuming_twin(p) {
                let mut ops = node.ops.clone();
                ops.push(p.clone());
                ops.push(tw);
                jobs.push(mk(jid, ops));
                meta.push((ni, Kind::Twin, pi, 0));
            }
        }
        peeks_of.push(peeks);
    }
    let mut pos = 0usize;
    let chunk = 4000usize;
    let mut base_res: std::collections::HashMap<(usize, usize), JobResult> = std::collections::HashMap::new();
    while pos < jobs.len() {
        let end = (pos + chunk).min(jobs.len());
        let results = pool.run(jobs[pos..end].to_vec());
        for (k, res) in results.into_iter().enumerate() {
            let idx = pos + k;
            let (ni, kind, pi, si) = meta[idx];
            let job = &jobs[idx];
            let node = &nodes[ni];
            stats.transitions += 1;
            let hl = node.ops.len();
            let mut found: Option<Discrepancy> = None;
            match kind {
                Kind::Base => {
                    base_res.insert((ni, si), res);
                    continue;
                }
                Kind::WithPeek => {
                    let peek = &peeks_of[ni][pi];
                    if res.status != "ok" {
                        found = Some(Discrepancy {
                            class: "crash",
                            detail: format!("engine process {} with non-consuming op {}", res.status, peek.short()),
                            pure_loss: false, pure_redelivery: false,
                        });
                    } else if let Some(base) = base_res.get(&(ni, si)) {
                        if base.status == "ok" && res.obs.len() == base.obs.len() + 1 {
                            // model check of the peek itself (content oracles)
                            let mut m = node.model.clone();
                            let ds = m.step(peek, &res.obs[hl]);
                            if let Some(x) = ds.into_iter().find(|x| {
                                matches!(x.class, "offset.content" | "read.order" | "read.empty" | "read.panic" | "read.err" | "read.cap" | "read.budget" | "count")
                            }) {
                                found = Some(Discrepancy { pure_loss: false, pure_redelivery: false, class: "peek.result", detail: format!("{}: {}", peek.short(), x.detail) });
                            }
                            if found.is_none() && hl >= 1 && res.digests.len() > hl {
                                let parse = |t: &str| serde_json::from_str::<serde_json::Value>(t).ok();
                                if let (Some(a), Some(b)) = (parse(&res.digests[hl - 1]), parse(&res.digests[hl])) {
                                    if a["blocks"] != b["blocks"] || a["filestate"] != b["filestate"] {
                                        found = Some(Discrepancy {
                                            pure_loss: false,
                                            pure_redelivery: false,
                                            class: "reclaim.bookkeeping",
                                            detail: format!(
                                                "{} changed the reclamation bookkeeping: blocks {} -> {}, files {} -> {}",
                                                peek.short(),
                                                a["blocks"],
                                                b["blocks"],
                                                a["filestate"],
                                                b["filestate"]
                                            ),
                                        });
                                    }
                                }
                            }
                            if found.is_none() {
                                for j in 0..(base.obs.len() - hl) {
                                    let a = &base.obs[hl + j];
                                    let b = &res.obs[hl + 1 + j];
                                    if a.res != b.res || a.counts != b.counts {
                                        found = Some(Discrepancy { pure_loss: false, pure_redelivery: false,
                                            class: "peek.changed",
                                            detail: format!(
                                                "after {} the suffix op {} observes {} / counts {:?}; without it {} / counts {:?}",
                                                peek.short(),
                                                job.ops[hl + 1 + j].short(),
                                                brief(&b.res),
                                                b.counts,
                                                brief(&a.res),
                                                a.counts
                                            ),
                                        });
                                        break;
                                    }
                                }
                            }
                        }
                    }
                }
                Kind::Twin => {
                    let peek = &peeks_of[ni][pi];
                    if res.status == "ok" && res.obs.len() == hl + 2 && res.obs[hl].res != res.obs[hl + 1].res {
                        found = Some(Discrepancy { pure_loss: false, pure_redelivery: false,
                            class: "peek.differs",
                            detail: format!(
                                "{} returned {} but the immediately following consuming read returned {}",
                                peek.short(),
                                brief(&res.obs[hl].res),
                                brief(&res.obs[hl + 1].res)
                            ),
                        });
                    }
                }
            }
            if let Some(x) = found {
                if violations.len() < 6 {
                    handle_bad(pool, spec, kf, cfg, job, &res, &node.model, x, job.ops.len().saturating_sub(1), stats, violations, known_lines);
                }
            }
        }
        pos = end;
    }
}


/// Extend every state by each tail and step the model through it.
#[allow(clippy::too_many_arguments)]
fn run_tails(
    pool: &Pool,
    spec: &Spec,
    kf: &Known,
    cfg: &Config,
    nodes: &[Node],
    jid: &mut u64,
    stats: &mut Stats,
    violations: &mut Vec<(Violation, String)>,
    known_lines: &mut Vec<String>,
) {
    let mut jobs: Vec<Job> = Vec::new();
    let mut meta: Vec<(usize, usize)> = Vec::new();
    for (ni, node) in nodes.iter().enumerate() {
        for (ti, tail) in spec.tails.iter().enumerate() {
            let mut ops = node.ops.clone();
            ops.extend(tail.iter().cloned());
            *jid += 1;
            jobs.push(Job {
                id: *jid,
                cfg: cfg.clone(),
                ops,
                want_digest: false,
                digest_each: spec.prop == "C12",
                want_listing: false,
                isolate: spec.isolate,
                trace: false,
                pre_image: vec![],
                faults: vec![],
                sched: None,
            });
            meta.push((ni, ti));
        }
    }
    for (cjobs, cmeta) in jobs.chunks(4000).zip(meta.chunks(4000)) {
        let results = pool.run(cjobs.to_vec());
        for ((job, res), (ni, _ti)) in cjobs.iter().zip(results.iter()).zip(cmeta.iter()) {
            stats.transitions += 1;
            let node = &nodes[*ni];
            let hl = node.ops.len();
            if res.status.starts_with("internal") {
                stats.machinery_errors.push(format!("{}: {}", res.status, hist_str(&job.ops)));
                continue;
            }
            let mut bad: Option<Discrepancy> = None;
            let mut bad_at = job.ops.len().saturating_sub(1);
            let mut model = node.model.clone();
            if res.status != "ok" {
                bad = Some(Discrepancy { pure_loss: false, pure_redelivery: false, class: "crash", detail: format!("engine process {} in tail", res.status) });
            } else if res.obs.len() == job.ops.len() {
                for i in hl..job.ops.len() {
                    let pre = model.clone();
                    let mut ds = model.step(&job.ops[i], &res.obs[i]);
                    if spec.prop == "C12" && matches!(job.ops[i], Op::ReclaimTick) && i >= 1 && res.digests.len() == job.ops.len() {
                        if let Some(msg) = reclaim_oracle(cfg.cons == Consistency::Strict, &res.digests[i - 1], &res.digests[i]) {
                            ds.push(Discrepancy { class: "reclaim.unconsumed", detail: msg, pure_loss: false, pure_redelivery: false });
                        }
                    }
                    let foreign_core = ds.iter().any(|x| is_core(x.class) && !spec.owned.contains(&x.class));
                    if foreign_core {
                        break;
                    }
                    if let Some(x) = ds.into_iter().find(|x| owned(spec, &pre, &job.ops[..=i], x)) {
                        bad = Some(x);
                        bad_at = i;
                        break;
                    }
                }
            }
            if let Some(x) = bad {
                if violations.len() < 6 {
                    handle_bad(pool, spec, kf, cfg, job, res, &node.model, x, bad_at, stats, violations, known_lines);
                }
            }
        }
    }
}
