//! Boring reference model: per (instance identity, topic) a FIFO of acknowledged entries,
//! a set of candidate consumer positions (a singleton except after an AtLeastOnce
//! restart), a clean flag. `step` consumes one (op, observation) pair and reports
//! discrepancies by class; each check decides which classes it owns.
use crate::exec::Sym;
use crate::ops::*;
use std::collections::{BTreeMap, BTreeSet};

#[derive(Clone, Debug, PartialEq, Eq, Hash)]
pub struct LogEnt {
    pub seq: u32,
    pub ent: Ent,
}

#[derive(Clone, Debug)]
pub struct TopicModel {
    pub log: Vec<LogEnt>,
    pub cands: BTreeSet<usize>,
    pub count_known: bool,
    /// None = not determined (after a failed append, or after reopen in ungated runs)
    pub clean: Option<bool>,
    /// a consuming batch read happened since the last (re)open (AtLeastOnce: durable
    /// position may lag arbitrarily)
    pub batch_consumed: bool,
}

impl TopicModel {
    fn new() -> Self {
        let mut c = BTreeSet::new();
        c.insert(0);
        TopicModel { log: vec![], cands: c, count_known: true, clean: Some(true), batch_consumed: false }
    }
    pub fn unconsumed_min(&self) -> usize {
        self.log.len() - self.cands.iter().max().copied().unwrap_or(0)
    }
    pub fn unconsumed_max(&self) -> usize {
        self.log.len() - self.cands.iter().min().copied().unwrap_or(0)
    }
}

#[derive(Clone, Debug)]
pub struct Discrepancy {
    pub class: &'static str,
    pub detail: String,
    /// the observation is explained by entries having vanished (fewer / later entries
    /// than expected, a lower count), nothing foreign, duplicated or reordered
    pub pure_loss: bool,
    /// the observation is explained by the cursor having moved backwards (already
    /// consumed entries delivered / counted again), nothing lost or foreign
    pub pure_redelivery: bool,
}

#[derive(Clone)]
pub struct Model {
    pub cfg: Config,
    pub geom_max_alloc: u64,
    pub sym: SymC,
    pub topics: BTreeMap<(u8, u8, u8), TopicModel>,
    pub restarts: u32,
    /// appends / batch appends that returned an error or panicked so far
    pub failed_appends: u32,
    /// the FIFO part of the model can no longer be trusted (a core discrepancy occurred)
    pub broken: bool,
}

/// Clone-able copy of exec::Sym's fields
#[derive(Clone)]
pub struct SymC {
    pub open: [Option<(u8, u8)>; 3],
    pub cur: usize,
    pub seq: BTreeMap<(u8, u8, u8), u32>,
    pub multi: bool,
}

fn d(class: &'static str, detail: String) -> Discrepancy {
    Discrepancy { class, detail, pure_loss: false, pure_redelivery: false }
}
fn dlr(pure_redelivery: bool, class: &'static str, detail: String, pure_loss: bool) -> Discrepancy {
    Discrepancy { class, detail, pure_loss, pure_redelivery }
}
fn dl(class: &'static str, detail: String, pure_loss: bool) -> Discrepancy {
    Discrepancy { class, detail, pure_loss, pure_redelivery: false }
}

impl Model {
    pub fn new(cfg: &Config, ops_hint_multi: bool, max_alloc: u64) -> Self {
        let mut sym = SymC { open: [None, None, None], cur: 0, seq: BTreeMap::new(), multi: ops_hint_multi };
        if !ops_hint_multi {
            sym.open[0] = Some((0, 0));
        }
        let _ = Sym::new(&[]);
        Model { cfg: cfg.clone(), geom_max_alloc: max_alloc, sym, topics: BTreeMap::new(), restarts: 0, failed_appends: 0, broken: false }
    }

    fn ident(&self) -> (u8, u8) {
        self.sym.open[self.sym.cur].unwrap_or((255, 255))
    }

    pub fn topic(&mut self, t: u8) -> &mut TopicModel {
        let (k, dd) = self.ident();
        self.topics.entry((k, dd, t)).or_insert_with(TopicModel::new)
    }
    pub fn topic_ro(&self, t: u8) -> Option<&TopicModel> {
        let (k, dd) = self.ident();
        self.topics.get(&(k, dd, t))
    }

    fn bump(&mut self, t: u8, n: u32) -> u32 {
        let (k, dd) = self.ident();
        let e = self.sym.seq.entry((k, dd, t)).or_insert(0);
        let first = *e;
        *e += n;
        first
    }

    /// canonical key of the model state for de-duplication
    pub fn key(&self) -> String {
        let mut s = String::new();
        s.push_str(&format!("{:?}|{}|r{}|f{}|", self.sym.open, self.sym.cur, self.restarts, self.failed_appends.min(1)));
        for (k, v) in self.sym.seq.iter() {
            s.push_str(&format!("{:?}={},", k, v));
        }
        s.push('|');
        for (k, tm) in self.topics.iter() {
            let mut h: u64 = 0xcbf29ce484222325;
            for e in tm.log.iter() {
                h ^= e.ent.fnv ^ (e.ent.len as u64).rotate_left(17) ^ (e.seq as u64).rotate_left(40);
                h = h.wrapping_mul(0x100000001B3);
            }
            s.push_str(&format!(
                "{:?}:{}:{:x}:{:?}:{}:{:?}:{};",
                k,
                tm.log.len(),
                h,
                tm.cands,
                tm.count_known,
                tm.clean,
                tm.batch_consumed
            ));
        }
        s
    }

    fn on_reopen_topic(cfg: &Config, tm: &mut TopicModel) {
        match cfg.cons {
            Consistency::Strict => {}
            Consistency::Alo(n) => {
                let hi = tm.cands.iter().max().copied().unwrap_or(0);
                let lo_c = tm.cands.iter().min().copied().unwrap_or(0);
                let lo = if tm.batch_consumed { 0 } else { lo_c.saturating_sub(n.max(1) as usize) };
                tm.cands = (lo..=hi).collect();
                tm.count_known = false;
            }
        }
        tm.batch_consumed = false;
        if !cfg.gate_persist {
            // the persister thread is free-running: a reopen right after a mark may or may
            // not see it
            tm.clean = None;
        }
    }

    /// Applies one step. Returns discrepancies (possibly empty).
    pub fn step(&mut self, op: &Op, obs: &Obs) -> Vec<Discrepancy> {
        let mut out = Vec::new();
        let max_alloc = self.geom_max_alloc;
        let mut check_post_topic: Option<u8> = None;
        match op {
            Op::Append { t, len } => {
                let seq = self.bump(*t, 1);
                let ent = ent_of(&payload(*t, seq, *len));
                let fits = (256 + *len as u64) <= max_alloc;
                let tm = self.topic(*t);
                match &obs.res {
                    Res::Ok => {
                        tm.log.push(LogEnt { seq, ent });
                        tm.clean = Some(false);
                        if !fits {
                            out.push(d("append.accepted_oversize", format!("len {} accepted", len)));
                        }
                    }
                    Res::Err(k) => {
                        tm.clean = None;
                        if fits {
                            out.push(d("append.unexpected_err", format!("append of {} bytes -> Err({})", len, k)));
                        }
                    }
                    Res::Panic(m) => {
                        tm.clean = None;
                        out.push(d("append.panic", format!("append of {} bytes panicked: {}", len, m)));
                    }
                    other => out.push(d("harness", format!("append -> {:?}", other))),
                }
                check_post_topic = Some(*t);
            }
            Op::Batch { t, lens } => {
                let first = self.bump(*t, lens.len() as u32);
                let tm = self.topic(*t);
                match &obs.res {
                    Res::Ok => {
                        for (i, l) in lens.iter().enumerate() {
                            let seq = first + i as u32;
                            tm.log.push(LogEnt { seq, ent: ent_of(&payload(*t, seq, *l)) });
                        }
                        // an empty batch still marks the topic dirty in the engine; the
                        // property only speaks about appends, so leave it undetermined
                        tm.clean = if lens.is_empty() { None } else { Some(false) };
                    }
                    Res::Err(_) => {
                        tm.clean = None;
                    }
                    Res::Panic(m) => {
                        tm.clean = None;
                        out.push(d("append.panic", format!("batch {:?} panicked: {}", lens, m)));
                    }
                    other => out.push(d("harness", format!("batch -> {:?}", other))),
                }
                check_post_topic = Some(*t);
            }
            Op::BatchN { t, n, len } => {
                let first = self.bump(*t, *n as u32);
                let tm = self.topic(*t);
                match &obs.res {
                    Res::Ok => {
                        for i in 0..*n {
                            let seq = first + i as u32;
                            tm.log.push(LogEnt { seq, ent: ent_of(&payload(*t, seq, *len)) });
                        }
                        tm.clean = if *n == 0 { None } else { Some(false) };
                    }
                    Res::Err(_) => tm.clean = None,
                    Res::Panic(m) => {
                        tm.clean = None;
                        out.push(d("append.panic", format!("batchN panicked: {}", m)));
                    }
                    other => out.push(d("harness", format!("batchN -> {:?}", other))),
                }
                check_post_topic = Some(*t);
            }
            Op::AppendLongTopic { .. } => match &obs.res {
                Res::Ok => out.push(d("append.accepted_longtopic", "over-long topic accepted".into())),
                Res::Err(_) => {}
                Res::Panic(m) => out.push(d("append.panic", format!("long topic panicked: {}", m))),
                other => out.push(d("harness", format!("appendLongTopic -> {:?}", other))),
            },
            Op::ReadNext { t, ckpt } => {
                let tm = self.topic(*t);
                match &obs.res {
                    Res::One(e) => {
                        let nc: BTreeSet<usize> =
                            tm.cands.iter().copied().filter(|&j| j < tm.log.len() && tm.log[j].ent == *e).collect();
                        if nc.is_empty() {
                            out.push(d(
                                "read.order",
                                format!(
                                    "read_next returned (len {}, fnv {:x}) but the next unconsumed entry is {}",
                                    e.len,
                                    e.fnv,
                                    describe_next(tm)
                                ),
                            ));
                        } else if *ckpt {
                            tm.cands = nc.into_iter().map(|j| j + 1).collect();
                        } else {
                            tm.cands = nc;
                        }
                    }
                    Res::None => {
                        let n = tm.log.len();
                        if tm.cands.contains(&n) {
                            tm.cands = [n].into_iter().collect();
                        } else {
                            out.push(dl(
                                "read.empty",
                                format!("read_next returned None but {} entries are unconsumed", tm.unconsumed_min()),
                                true,
                            ));
                        }
                    }
                    Res::Err(k) => out.push(d("read.err", format!("read_next -> Err({})", k))),
                    Res::Panic(m) => out.push(d("read.panic", format!("read_next panicked: {}", m))),
                    other => out.push(d("harness", format!("read_next -> {:?}", other))),
                }
                check_post_topic = Some(*t);
            }
            Op::BatchRead { t, budget, ckpt, start: None } => {
                let consuming = *ckpt;
                let tm = self.topic(*t);
                match &obs.res {
                    Res::Many(v) => {
                        let k = v.len();
                        if k > 2000 {
                            out.push(d("read.cap", format!("batch read returned {} entries", k)));
                        }
                        let total: u128 = v.iter().map(|e| e.len as u128).sum();
                        if total > *budget as u128 && k != 1 {
                            out.push(d(
                                "read.budget",
                                format!("batch read returned {} entries totalling {} bytes for budget {}", k, total, budget),
                            ));
                        }
                        if k == 0 {
                            let n = tm.log.len();
                            if tm.cands.contains(&n) {
                                tm.cands = [n].into_iter().collect();
                            } else {
                                out.push(d(
                                    "read.empty",
                                    format!(
                                        "batch read (budget {}) returned nothing but {} entries are unconsumed",
                                        budget,
                                        tm.unconsumed_min()
                                    ),
                                ));
                            }
                        } else {
                            let nc: BTreeSet<usize> = tm
                                .cands
                                .iter()
                                .copied()
                                .filter(|&j| j + k <= tm.log.len() && (0..k).all(|i| tm.log[j + i].ent == v[i]))
                                .collect();
                            if nc.is_empty() {
                                out.push(d(
                                    "read.order",
                                    format!(
                                        "batch read returned {} entries {:?} which are not the next unconsumed run; next is {}",
                                        k,
                                        v.iter().map(|e| e.len).collect::<Vec<_>>(),
                                        describe_next(tm)
                                    ),
                                ));
                            } else if consuming {
                                tm.cands = nc.into_iter().map(|j| j + k).collect();
                                tm.batch_consumed = true;
                            } else {
                                tm.cands = nc;
                            }
                        }
                    }
                    Res::Err(k) => out.push(d("read.err", format!("batch_read -> Err({})", k))),
                    Res::Panic(m) => out.push(d("read.panic", format!("batch_read panicked: {}", m))),
                    other => out.push(d("harness", format!("batch_read -> {:?}", other))),
                }
                check_post_topic = Some(*t);
            }
            Op::BatchRead { t, budget, start: Some(_), .. } => {
                let tm = self.topic(*t);
                match &obs.res {
                    Res::Many(v) => {
                        if v.len() > 2000 {
                            out.push(d("read.cap", format!("offset read returned {} entries", v.len())));
                        }
                        let total: u128 = v.iter().map(|e| e.len as u128).sum();
                        if total > *budget as u128 && v.len() != 1 {
                            out.push(d(
                                "read.budget",
                                format!("offset read returned {} entries totalling {} bytes for budget {}", v.len(), total, budget),
                            ));
                        }
                        if let Some(msg) = offset_read_content_ok(*t, tm, v) {
                            out.push(d("offset.content", msg));
                        }
                    }
                    Res::Err(k) => out.push(d("read.err", format!("offset read -> Err({})", k))),
                    Res::Panic(m) => out.push(d("read.panic", format!("offset read panicked: {}", m))),
                    other => out.push(d("harness", format!("offset read -> {:?}", other))),
                }
                check_post_topic = Some(*t);
            }
            Op::Drain { t } => {
                let tm = self.topic(*t);
                match &obs.res {
                    Res::Many(v) => {
                        let n = tm.log.len();
                        let nc: Vec<usize> = tm
                            .cands
                            .iter()
                            .copied()
                            .filter(|&j| n - j == v.len() && (0..v.len()).all(|i| tm.log[j + i].ent == v[i]))
                            .collect();
                        if nc.is_empty() {
                            let hi = tm.cands.iter().max().copied().unwrap_or(0);
                            let loss = v.len() < n - hi && (0..v.len()).all(|i| tm.log[n - v.len() + i].ent == v[i]);
                            let lo = tm.cands.iter().min().copied().unwrap_or(0);
                            let redeliv = v.len() > n - lo && v.len() <= n && (0..v.len()).all(|i| tm.log[n - v.len() + i].ent == v[i]);
                            out.push(dlr(
                                redeliv,
                                "read.order",
                                format!(
                                    "drain returned {} entries {:?}; expected the {}..{} unconsumed entries {}",
                                    v.len(),
                                    v.iter().take(12).map(|e| e.len).collect::<Vec<_>>(),
                                    tm.unconsumed_min(),
                                    tm.unconsumed_max(),
                                    describe_next(tm)
                                ),
                                loss,
                            ));
                        }
                        tm.cands = [n].into_iter().collect();
                    }
                    Res::Err(k) => out.push(d("read.err", format!("drain -> Err({})", k))),
                    Res::Panic(m) => out.push(d("read.panic", format!("drain panicked: {}", m))),
                    other => out.push(d("harness", format!("drain -> {:?}", other))),
                }
                check_post_topic = Some(*t);
            }
            Op::Reopen | Op::Restart => {
                self.restarts += 1;
                match &obs.res {
                    Res::Ok => {}
                    Res::Err(k) => out.push(d("reopen.err", format!("reopen failed: {}", k))),
                    Res::Panic(m) => out.push(d("reopen.panic", format!("reopen panicked: {}", m))),
                    other => out.push(d("harness", format!("reopen -> {:?}", other))),
                }
                let cfg = self.cfg.clone();
                let idents: Vec<(u8, u8)> = if matches!(op, Op::Restart) {
                    self.sym.open.iter().flatten().copied().collect()
                } else {
                    vec![self.ident()]
                };
                for ((k, dd, _t), tm) in self.topics.iter_mut() {
                    if idents.contains(&(*k, *dd)) {
                        Self::on_reopen_topic(&cfg, tm);
                    }
                }
            }
            Op::MarkClean { t } => {
                self.topic(*t).clean = Some(true);
            }
            Op::MarkDirty { t } => {
                self.topic(*t).clean = Some(false);
            }
            Op::PersistTick | Op::ReclaimTick => {}
            Op::Use { inst } => self.sym.cur = *inst as usize % 3,
            Op::Open { inst, key, dir } => {
                let i = *inst as usize % 3;
                self.sym.open[i] = Some((*key, *dir));
                self.sym.cur = i;
                match &obs.res {
                    Res::Ok => {}
                    other => out.push(d("reopen.err", format!("open -> {:?}", other))),
                }
                let cfg = self.cfg.clone();
                for ((k, dd, _t), tm) in self.topics.iter_mut() {
                    if (*k, *dd) == (*key, *dir) {
                        Self::on_reopen_topic(&cfg, tm);
                    }
                }
            }
            Op::Close { inst } => {
                self.sym.open[*inst as usize % 3] = None;
            }
            Op::OpenKey { .. } => {
                self.sym.open[0] = Some((0, 0));
                self.sym.cur = 0;
            }
        }

        if matches!(op, Op::Append { .. } | Op::Batch { .. } | Op::BatchN { .. } | Op::AppendLongTopic { .. })
            && matches!(obs.res, Res::Err(_) | Res::Panic(_))
        {
            self.failed_appends += 1;
        }
        // post-state observations of the current instance: counts and clean flags
        if self.sym.open[self.sym.cur].is_some() && obs.counts.len() == TOPICS.len() {
            for t in 0..TOPICS.len() as u8 {
                let (k, dd) = self.ident();
                let tm = match self.topics.get(&(k, dd, t)) {
                    Some(tm) => tm.clone(),
                    None => TopicModel::new(),
                };
                if tm.count_known {
                    let c = obs.counts[t as usize] as usize;
                    let ok = tm.cands.iter().any(|&j| tm.log.len() - j == c);
                    if !ok {
                        let lower = tm.cands.iter().all(|&j| c < tm.log.len() - j);
                        let higher = c <= tm.log.len() && tm.cands.iter().all(|&j| c > tm.log.len() - j);
                        out.push(dlr(
                            higher,
                            "count",
                            format!(
                                "after {}: count({}) = {} but appended-consumed = {}",
                                op.short(),
                                TOPICS[t as usize],
                                c,
                                if tm.unconsumed_min() == tm.unconsumed_max() {
                                    tm.unconsumed_min().to_string()
                                } else {
                                    format!("{}..{}", tm.unconsumed_min(), tm.unconsumed_max())
                                }
                            ),
                            lower,
                        ));
                    }
                }
                if let Some(exp) = tm.clean {
                    if obs.clean[t as usize] != exp {
                        out.push(d(
                            "clean",
                            format!(
                                "after {}: topic_is_clean({}) = {} but expected {}",
                                op.short(),
                                TOPICS[t as usize],
                                obs.clean[t as usize],
                                exp
                            ),
                        ));
                    }
                }
            }
        }
        let _ = check_post_topic;
        if out.iter().any(|x| x.class.starts_with("read.") && x.class != "read.cap" && x.class != "read.budget") {
            self.broken = true;
        }
        out
    }
}

fn describe_next(tm: &TopicModel) -> String {
    let j = tm.cands.iter().min().copied().unwrap_or(0);
    if j >= tm.log.len() {
        "nothing (all consumed)".to_string()
    } else {
        let lens: Vec<usize> = tm.log[j..].iter().take(12).map(|e| e.ent.len).collect();
        format!("#{} of {} (lens from there: {:?})", j, tm.log.len(), lens)
    }
}

/// C02(iv): every element is an appended entry of the topic, or (first element only) a
/// proper suffix of one, with strictly increasing entry indices. None = fine.
fn offset_read_content_ok(t: u8, tm: &TopicModel, v: &[Ent]) -> Option<String> {
    if v.is_empty() {
        return None;
    }
    // candidates for the first element
    let mut firsts: Vec<usize> = Vec::new();
    for (i, le) in tm.log.iter().enumerate() {
        if le.ent == v[0] {
            firsts.push(i);
            continue;
        }
        if v[0].len < le.ent.len {
            let bytes = payload(t, le.seq, le.ent.len);
            let k = le.ent.len - v[0].len;
            if fnv64(&bytes[k..]) == v[0].fnv {
                firsts.push(i);
            }
        }
    }
    if firsts.is_empty() {
        return Some(format!(
            "first element (len {}, fnv {:x}) is neither an appended entry of the topic nor a suffix of one",
            v[0].len, v[0].fnv
        ));
    }
    // greedy earliest increasing match for the rest, from the earliest first
    'outer: for f in firsts {
        let mut pos = f + 1;
        for (n, e) in v.iter().enumerate().skip(1) {
            let mut found = None;
            for i in pos..tm.log.len() {
                if tm.log[i].ent == *e {
                    found = Some(i);
                    break;
                }
            }
            match found {
                Some(i) => pos = i + 1,
                None => {
                    let _ = n;
                    continue 'outer;
                }
            }
        }
        return None;
    }
    Some(format!(
        "elements {:?} are not appended entries of the topic in append order",
        v.iter().map(|e| e.len).collect::<Vec<_>>()
    ))
}
