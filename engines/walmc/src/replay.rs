//! `walmc replay <file>`: re-executes a recorded counter-example without the explorer and
//! says whether the recorded observations reproduce.
use crate::ops::*;
use crate::pool::Pool;

pub fn run(path: &str) -> i32 {
    let Ok(text) = std::fs::read_to_string(path) else {
        eprintln!("cannot read {}", path);
        return 2;
    };
    let Ok(v) = serde_json::from_str::<serde_json::Value>(&text) else {
        eprintln!("not a replay file: {}", path);
        return 2;
    };
    let engine = v["engine"].as_str().unwrap_or("");
    println!("property {} engine {} class {}", v["property"], engine, v["class"]);
    println!("detail: {}", v["detail"].as_str().unwrap_or(""));
    if !engine.starts_with("walmc") {
        println!("this counter-example belongs to another harness binary; its file holds the complete history:");
        println!("{}", text);
        return 0;
    }
    let Ok(cfg) = serde_json::from_value::<Config>(v["config"].clone()) else { return 2 };
    let pool = Pool::new();
    let mut job = Job {
        id: 1,
        cfg,
        ops: serde_json::from_value(v["ops"].clone()).unwrap_or_default(),
        want_digest: false,
        digest_each: false,
        want_listing: false,
        isolate: true,
        trace: false,
        pre_image: vec![],
        faults: vec![],
        sched: None,
    };
    match engine {
        "walmc-crash" => {
            job.pre_image = serde_json::from_value(v["crash_image"].clone()).unwrap_or_default();
            job.ops = vec![Op::Drain { t: 0 }, Op::Drain { t: 1 }, Op::Drain { t: 2 }];
            job.isolate = false;
        }
        "walmc-sched" => {
            job.isolate = false;
            job.ops = serde_json::from_value(v["setup"].clone()).unwrap_or_default();
            job.sched = Some(SchedSpec {
                threads: serde_json::from_value(v["threads"].clone()).unwrap_or_default(),
                prefix: serde_json::from_value(v["choice_prefix"].clone()).unwrap_or_default(),
            });
        }
        _ => {}
    }
    let r = pool.run(vec![job]).remove(0);
    println!("child status: {}", r.status);
    if let Some(s) = &r.sched {
        println!("schedule: {:?}", s.decisions.iter().map(|d| d.enabled[d.chosen]).collect::<Vec<_>>());
        println!("results: {}", serde_json::to_string(&s.results).unwrap_or_default());
        println!("final drain: {} entries, log: {} entries", s.final_drain.len(), s.physical.len());
        let same = serde_json::to_value(&s.results).ok() == Some(v["results"].clone());
        println!("{}", if same { "REPRODUCED (same per-thread results)" } else { "observations differ from the recorded ones" });
        return if same { 1 } else { 0 };
    }
    for (op, o) in hist_ops(&v).iter().zip(r.obs.iter()) {
        println!("  {:<40} -> {} counts {:?}", op, brief(&o.res), o.counts);
    }
    let recorded: Vec<Obs> = serde_json::from_value(v["observations"].clone()).unwrap_or_default();
    let same = recorded == r.obs && v["child_status"].as_str().unwrap_or("ok") == r.status;
    println!("{}", if same { "REPRODUCED (identical observations)" } else { "observations differ from the recorded ones" });
    if same {
        1
    } else {
        0
    }
}

fn hist_ops(v: &serde_json::Value) -> Vec<String> {
    let ops: Vec<Op> = serde_json::from_value(v["ops"].clone()).unwrap_or_default();
    if v["engine"] == "walmc-crash" {
        return vec!["drain(a)".into(), "drain(b)".into(), "drain(c)".into()];
    }
    ops.iter().map(|o| o.short()).collect()
}

fn brief(r: &Res) -> String {
    match r {
        Res::Many(v) => format!("Many(lens {:?})", v.iter().take(16).map(|e| e.len).collect::<Vec<_>>()),
        Res::One(e) => format!("One(len {})", e.len),
        other => format!("{:?}", other),
    }
}
